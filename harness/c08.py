"""C08 - packet codec: own output re-parses byte-exactly; foreign input normalises once (DESIGN.md 3/C08).

Every obligation builds the octets of one packet of another producer (header form and body octets symbolic), followed by
trailing octets that must be left untouched, and checks the fixed-point contract on the real Packet() dispatch:
accepted -> consumed exactly its own octets; re-serialisation has header length == body length, is accepted again as the
same class, and is a fixed point of a further parse/serialise pass (which is also what "own output re-parses byte-exactly" means)."""
import warnings

from vlib.h import ob, native
from pgpy.packet import Packet
from pgpy.errors import PGPError

warnings.simplefilter('ignore')

FUNCTIONS_ENCODED = ['pgpy.types.MetaDispatchable.__call__', 'pgpy.packet.types.Header.parse', 'pgpy.packet.types.Header.__bytearray__',
                     'pgpy.packet.types.VersionedHeader.parse', 'pgpy.packet.types.Opaque.parse',
                     'pgpy.packet.packets.{UserID,LiteralData,Marker,Trust,MDC,SKEData,IntegrityProtectedSKEDataV1,SKESessionKeyV4,PKESessionKeyV3,'
                     'OnePassSignatureV3,SignatureV4,PubKeyV4,PubSubKeyV4,PrivKeyV4,PrivSubKeyV4,UserAttribute}.parse/__bytearray__',
                     'pgpy.packet.fields.{RSAPub,DSAPub,ElGPub,ECDSAPub,EdDSAPub,ECDHPub,ECPoint,ECKDF,String2Key,RSAPriv,DSAPriv,ElGPriv,ECDSAPriv,EdDSAPriv,ECDHPriv,'
                     'RSACipherText,RSASignature,SubPackets,UserAttributeSubPackets}.parse/__bytearray__',
                     'pgpy.packet.subpackets.userattribute.Image.parse/__bytearray__']
STUBS = []
OUTSIDE = ['compressed data packets (zlib/bz2 are C code)', 'creation / modification times other than the fixed values used', 'multiprecision integers above 2^32 (2^17 for RSA e)',
           'bodies longer than a few symbolic octets', 'v3 keys and signatures', 'in-place mutation other than an edited user id (O8.grow): protect is C06, added subpackets C02/C15']
ASSUMPTIONS = ['"well-formed" foreign packets: the body has exactly the fields RFC 4880 gives the packet, nothing after them']

TRAIL = b'\xC0\xFF\xEE'


def hdr(tag, n, form):
    """header octets for `tag` and body length n: forms 0/1/2 = new 1-/2-/5-octet (2-octet needs n >= 192), 3/4/5 = old 1/2/4-octet"""
    if form == 0:
        return bytes([0xC0 + tag, n])
    if form == 1:
        return bytes([0xC0 + tag, (n - 192) // 256 + 192, (n - 192) % 256])
    if form == 2:
        return bytes([0xC0 + tag, 255, 0, 0, n // 256, n % 256])
    if form == 3:
        return bytes([0x80 + tag * 4, n])
    if form == 4:
        return bytes([0x80 + tag * 4 + 1, n // 256, n % 256])
    return bytes([0x80 + tag * 4 + 2, 0, 0, n // 256, n % 256])


def split_one(data):
    """(tag, header length, body length) of the packet at the start of data, per RFC 4880 4.2"""
    t = data[0]
    if t < 128:
        return None
    if t >= 192:
        f = data[1]
        if f < 192:
            return t - 192, 2, f
        if f < 224:
            return t - 192, 3, (f - 192) * 256 + data[2] + 192
        if f == 255:
            return t - 192, 6, data[2] * 16777216 + data[3] * 65536 + data[4] * 256 + data[5]
        return None
    lt = t % 4
    tag = (t - 128) // 4
    if lt == 0:
        return tag, 2, data[1]
    if lt == 1:
        return tag, 3, data[1] * 256 + data[2]
    if lt == 2:
        return tag, 5, data[1] * 16777216 + data[2] * 65536 + data[3] * 256 + data[4]
    return tag, 1, len(data) - 1


def fixed_point(raw, must_accept=False, same_bytes=False, same_body=False):
    buf = bytearray(raw) + bytearray(TRAIL)
    try:
        p = Packet(buf)
    except PGPError:
        return not must_accept          # rejected input: nothing to say
    if bytes(buf) != TRAIL:
        return False                    # must consume exactly its own octets and leave the rest alone
    out = bytes(p.__bytearray__())
    sp = split_one(out)
    if sp is None or sp[1] + sp[2] != len(out):
        return False                    # header length == body length
    if same_bytes and out != bytes(raw):
        return False
    if same_body:                       # the input body is already in the form PGPy itself writes: "same field values" means the same body octets
        rs = split_one(bytes(raw))
        if rs is None or out[sp[1]:] != bytes(raw)[rs[1]:rs[1] + rs[2]]:
            return False
    buf2 = bytearray(out) + bytearray(TRAIL)
    try:
        p2 = Packet(buf2)
    except PGPError:
        return False                    # own output must be accepted again
    if bytes(buf2) != TRAIL or type(p2) is not type(p):
        return False
    return bytes(p2.__bytearray__()) == out


def pack(tag, body, form):
    return hdr(tag, len(body), form) + bytes(body)


# ------------------------------------------------------------------------------------ text / data packets
UOCT = (0x00, 0x41, 0x7F, 0x80, 0xBF, 0xC0, 0xC2, 0xC3, 0xDF, 0xE0, 0xED, 0xF0, 0xF4, 0xFF)


@ob('O8.uid', 'User ID packets with arbitrary (also invalid UTF-8) octets', 'header form in {new-1, new-5, old-1, old-2, old-4}; body of 0..2 (quick) / 0..3 (thorough) octets, each from the 14 UTF-8 class-boundary '
    'values {00,41,7F,80,BF,C0,C2,C3,DF,E0,ED,F0,F4,FF} (the charmap fallback decoder is C code and enumerates)',
    cond_timeout={'q': 280, 't': 1500}, partitions={'q': [['form == %d' % f, 'n <= 2'] for f in (0, 2, 3, 4, 5)], 't': [['form == %d' % f, 'i0 %% 2 == %d' % k] for f in (0, 2, 3, 4, 5) for k in range(2)]})
def fp_userid(form: int, n: int, i0: int, i1: int, i2: int) -> bool:
    """
    pre: form in (0, 2, 3, 4, 5)
    pre: 0 <= n <= 3
    pre: 0 <= i0 < 14 and 0 <= i1 < 14 and 0 <= i2 < 14
    pre: n >= 1 or i0 == 0
    pre: n >= 2 or i1 == 0
    pre: n >= 3 or i2 == 0
    post: _
    """
    octs = []
    for j, sym in enumerate((i0, i1, i2)):
        if j < n:
            for k in range(14):
                if sym == k:
                    octs.append(UOCT[k])
    f = 0
    for k in (0, 2, 3, 4, 5):
        if form == k:
            f = k
    with native():            # the octets are concrete on this path; CrossHair's UTF-8 decoder model accepts encoded surrogates (ED BF 80), Python does not
        return fixed_point(pack(13, bytes(octs), f), must_accept=True)


@ob('O8.literal', 'Literal data packets: format octet, file name octets, time, data', 'header form in {new-1, new-5, old-1}; format octet symbolic; file name of 0..2 symbolic octets; '
    'time from {0, 2^31}; data of 0..2 symbolic octets', cond_timeout={'q': 280, 't': 900},
    partitions=[['form == %d' % f, 'len(fn) == %d' % k] for f in (0, 2, 3) for k in range(3)])
def fp_literal(form: int, fmt: int, fn: bytes, hi: bool, data: bytes) -> bool:
    """
    pre: form in (0, 2, 3)
    pre: 0 <= fmt < 256
    pre: len(fn) <= 2 and len(data) <= 2
    post: _
    """
    body = bytes([fmt, len(fn)]) + fn + (b'\x80\x00\x00\x00' if hi else b'\x00\x00\x00\x00') + data
    return fixed_point(pack(11, body, form))


@ob('O8.small', 'Marker, Trust, MDC, symmetrically encrypted data (tag 9) and integrity-protected data (tag 18) packets',
    'kind in 0..4; header form in {new-1, new-5, old-1}; body octets symbolic (marker 3, trust 2, MDC 20 with 3 symbolic, encrypted data 0..3)',
    cond_timeout={'q': 280, 't': 900}, flags=('lazyhex',), partitions=[['kind == %d' % k] for k in range(5)])
def fp_small(kind: int, form: int, body: bytes) -> bool:
    """
    pre: 0 <= kind < 5
    pre: form in (0, 2, 3)
    pre: len(body) <= 3
    pre: kind != 0 or len(body) == 3
    pre: kind != 1 or len(body) == 2
    pre: kind != 2 or len(body) == 3
    post: _
    """
    if kind == 0:
        return fixed_point(pack(10, body, form), must_accept=True)
    if kind == 1:
        return fixed_point(pack(12, body, form))            # trust packets are implementation-defined: may be rejected
    if kind == 2:
        return fixed_point(pack(19, bytes(body) + bytes(range(17)), form if form != 3 else 0), must_accept=True)   # tags above 15 have no old format
    if kind == 3:
        return fixed_point(pack(9, body, form), must_accept=True)
    return fixed_point(pack(18, b'\x01' + bytes(body), form if form != 3 else 0), must_accept=True)


@ob('O8.opaque', 'unknown packet tags and unknown versions of versioned packets are carried as opaque packets', 'tag from the unassigned set {0? no: 15,16,20..63 sample 15,16,20,40,63} and '
    'versioned tags {1,2,3,4,5,6,7,14,18} with an unknown version octet; body of 1..3 symbolic octets; header form in {new-1, new-5}', cond_timeout={'q': 280, 't': 900},
    partitions=[['ti < 5'], ['ti >= 5']])
def fp_opaque(ti: int, form: int, body: bytes) -> bool:
    """
    pre: 0 <= ti < 14
    pre: form in (0, 2)
    pre: 1 <= len(body) <= 3
    pre: ti < 5 or body[0] in (0, 9, 200, 255)
    post: _
    """
    tags = (15, 16, 20, 40, 63, 1, 2, 3, 4, 5, 6, 7, 14, 18)
    tag = 15
    for k in range(14):
        if ti == k:
            tag = tags[k]
    return fixed_point(pack(tag, body, form), must_accept=True)


# ------------------------------------------------------------------------------------ session keys, one-pass
@ob('O8.skesk', 'symmetric-key encrypted session key packets: version 4, cipher, S2K specifier (simple / salted / iterated), optional encrypted key',
    'specifier in {0,1,3}; cipher from {3,7,9}; hash octet from {2,8}; salt 8 octets (2 symbolic); count octet symbolic; encrypted key of 0..2 symbolic octets; header form {new-1, old-1}',
    cond_timeout={'q': 280, 't': 900}, partitions=[['spec == %d' % k] for k in (0, 1, 3)])
def fp_skesk(form: int, spec: int, ci: int, hi: bool, s0: int, s1: int, cnt: int, ct: bytes) -> bool:
    """
    pre: form in (0, 3)
    pre: spec in (0, 1, 3)
    pre: 0 <= ci < 3
    pre: 0 <= s0 < 256 and 0 <= s1 < 256 and 0 <= cnt < 256
    pre: len(ct) <= 2
    post: _
    """
    cipher = (3, 7, 9)[ci]
    body = bytes([4, cipher, spec, 2 if hi else 8])
    if spec >= 1:
        body += bytes([s0, 1, 2, 3, 4, 5, 6, s1])
    if spec == 3:
        body += bytes([cnt])
    body += ct
    return fixed_point(pack(3, body, form), must_accept=True)


@ob('O8.pkesk', 'public-key encrypted session key packets (RSA): key id, algorithm, one multiprecision integer',
    'key id with 2 symbolic octets; RSA ciphertext integer below 2^32 (foreign MPIs with leading zero bits included via symbolic bit count); header form {new-1, old-1}',
    cond_timeout={'q': 280, 't': 900}, flags=('symmpi', 'lazyhex'))
def fp_pkesk(form: int, k0: int, k1: int, bits: int, m0: int, m1: int) -> bool:
    """
    pre: form in (0, 3)
    pre: 0 <= k0 < 256 and 0 <= k1 < 256
    pre: 1 <= bits <= 16
    pre: 0 <= m0 < 256 and 0 <= m1 < 256
    post: _
    """
    nb = (bits + 7) // 8
    mpi = bytes([0, bits]) + (bytes([m0, m1]) if nb == 2 else bytes([m0]))
    body = bytes([3, k0, 1, 2, 3, 4, 5, 6, k1, 1]) + mpi
    return fixed_point(pack(1, body, form))


@ob('O8.onepass', 'one-pass signature packets: version 3, type, hash, algorithm, key id, flag', 'type from {0,1}; hash from {2,8,10}; algorithm from {1,17,22}; key id with 2 symbolic octets; '
    'flag octet symbolic over all 256 values; header form {new-1, old-1}', cond_timeout={'q': 280, 't': 900}, flags=('lazyhex',))
def fp_onepass(form: int, t: bool, hi: int, ai: int, k0: int, k1: int, flag: int) -> bool:
    """
    pre: form in (0, 3)
    pre: 0 <= hi < 3 and 0 <= ai < 3
    pre: 0 <= k0 < 256 and 0 <= k1 < 256
    pre: 0 <= flag < 256
    post: _
    """
    body = bytes([3, 1 if t else 0, (2, 8, 10)[hi], (1, 17, 22)[ai], k0, 1, 2, 3, 4, 5, 6, k1, flag])
    return fixed_point(pack(4, body, form), must_accept=True)


# ------------------------------------------------------------------------------------ signature packet (unhashed area; hashed area is C05)
@ob('O8.sig', 'signature packets: a foreign unhashed area (issuer + one symbolic subpacket in any length form) re-serialises to a consistent packet',
    'unhashed subpacket: type id from {16-issuer only, 100 opaque, 23 key-server flags, 26 URI, 4 boolean}; body of 1 symbolic octet; length form 1 or 5 octets; header form {new-1, old-1}',
    cond_timeout={'q': 280, 't': 900}, partitions=[['ui == %d' % k] for k in range(5)])
def fp_signature(form: int, ui: int, v: int, l5: bool) -> bool:
    """
    pre: form in (0, 3)
    pre: 0 <= ui < 5
    pre: 0 <= v < 256
    post: _
    """
    unh = bytes([9, 16, 1, 2, 3, 4, 5, 6, 7, 8])
    tid = (0, 100, 23, 26, 4)[ui]
    if ui:
        unh += (bytes([255, 0, 0, 0, 2]) if l5 else bytes([2])) + bytes([tid, v])
    hashed = bytes([5, 2, 0x5F, 0x5E, 0x10, 0x00])
    body = bytes([4, 0, 1, 8, 0, len(hashed)]) + hashed + bytes([0, len(unh)]) + unh + b'\xAB\xCD' + b'\x00\x09\x01\xFF'
    return fixed_point(pack(2, body, form), must_accept=True)


# ------------------------------------------------------------------------------------ public keys
def pub_body(alg, material, t=b'\x5f\x5e\x10\x00'):
    return b'\x04' + t + bytes([alg]) + material


@ob('O8.pub-rsa', 'RSA public key and subkey packets: n and e as foreign multiprecision integers',
    'tag in {6, 14}; n below 2^32 and e below 2^17: declared bit counts from {25,31,32} x {1,16,17} (leading zero bits included), first and last octet of each symbolic; header form {new-1, old-1, old-2}',
    cond_timeout={'q': 280, 't': 900}, flags=('symmpi',), partitions=[['form == %d' % f, s] for f in (0, 3, 4) for s in ('sub', 'not sub')])
def fp_pub_rsa(form: int, sub: bool, nbits: int, n0: int, n1: int, n2: int, n3: int, ebits: int, e0: int, e1: int, e2: int) -> bool:
    """
    pre: form in (0, 3, 4)
    pre: nbits in (25, 31, 32)
    pre: 0 <= n0 < 256 and n1 == 7 and n2 == 9 and 0 <= n3 < 256
    pre: ebits in (1, 16, 17)
    pre: 0 <= e0 < 256 and e1 == 0 and 0 <= e2 < 256
    post: _
    """
    nb_c, eb_c = 32, 17
    for k in (25, 31, 32):                         # concrete declared bit counts per path
        if nbits == k:
            nb_c = k
    for k in (1, 16, 17):
        if ebits == k:
            eb_c = k
    eb = (eb_c + 7) // 8
    e = bytes([e0, e1, e2])[:eb]
    mat = bytes([0, nb_c, n0, n1, n2, n3]) + bytes([0, eb_c]) + e
    return fixed_point(pack(14 if sub else 6, pub_body(1, mat), form), must_accept=True)


OID_ED = bytes.fromhex('092b06010401da470f01')
OID_CV = bytes.fromhex('0a2b060104019755010501')
OID_P256 = bytes.fromhex('082a8648ce3d030107')


@ob('O8.pub-ec', 'elliptic-curve public key packets: EdDSA (native point 0x40), ECDSA P-256 (uncompressed point 0x04), ECDH Curve25519 (point + KDF parameters)',
    'kind in {EdDSA, ECDSA, ECDH}; first and last coordinate octet each from {00,01,80,FF}; ECDH KDF hash and cipher octets symbolic over {8,9,10} x {7,8,9}; header form {new-1, old-1}',
    cond_timeout={'q': 280, 't': 900}, flags=('symmpi',), partitions=[['kind == %d' % k] for k in range(3)])
def fp_pub_ec(form: int, kind: int, p0: int, p1: int, kh: int, kc: int) -> bool:
    """
    pre: form in (0, 3)
    pre: 0 <= kind < 3
    pre: 0 <= p0 < 4 and 0 <= p1 < 4
    pre: 0 <= kh < 3 and 0 <= kc < 3
    post: _
    """
    vals = (0x00, 0x01, 0x80, 0xFF)
    q = [0, 0]
    for j, sym in enumerate((p0, p1)):                # concrete octets per path: 263/515-bit symbolic integers are beyond the solver
        for k in range(4):
            if sym == k:
                q[j] = vals[k]
    p0, p1 = q
    if kind == 0:
        pt = b'\x40' + bytes([p0]) + bytes(range(30)) + bytes([p1])
        mat = OID_ED + bytes([1, 7]) + pt              # 263 bits
        alg = 22
    elif kind == 1:
        pt = b'\x04' + bytes([p0]) + bytes(range(62)) + bytes([p1])
        mat = OID_P256 + bytes([2, 3]) + pt            # 515 bits
        alg = 19
    else:
        pt = b'\x40' + bytes([p0]) + bytes(range(30)) + bytes([p1])
        mat = OID_CV + bytes([1, 7]) + pt + bytes([3, 1, (8, 9, 10)[kh], (7, 8, 9)[kc]])
        alg = 18
    # fixed-width coordinates are the canonical form (what PGPy writes): the body must come back octet for octet, leading zero octets of a coordinate included
    return fixed_point(pack(6, pub_body(alg, mat), form), must_accept=True, same_body=True)


@ob('O8.pub-dsa-elg', 'DSA and ElGamal public key packets (four / three multiprecision integers)', 'kind in {DSA, ElGamal}; every integer 1..2 symbolic octets with symbolic bit counts; header form {new-1, old-1}',
    cond_timeout={'q': 280, 't': 900}, flags=('symmpi',), partitions=[['dsa'], ['not dsa']])
def fp_pub_dsa_elg(form: int, dsa: bool, b0: int, b1: int, v0: int, v1: int, v2: int, v3: int) -> bool:
    """
    pre: form in (0, 3)
    pre: 1 <= b0 <= 8 and 9 <= b1 <= 16
    pre: 0 <= v0 < 256 and 0 <= v1 < 256 and 0 <= v2 < 256 and 0 <= v3 < 256
    post: _
    """
    m_small = bytes([0, b0, v0])
    m_big = bytes([0, b1, v1, v2])
    if dsa:
        mat = m_big + m_small + bytes([0, 8, v3]) + m_big
        alg = 17
    else:
        mat = m_big + m_small + bytes([0, 8, v3])
        alg = 16
    return fixed_point(pack(6, pub_body(alg, mat), form), must_accept=True)


# ------------------------------------------------------------------------------------ secret keys
@ob('O8.sec-plain', 'unprotected RSA secret key packets (S2K usage 0): public and secret integers, 16-bit checksum',
    'tag in {5, 7}; secret integers d, p, q, u of one symbolic octet each; checksum octets symbolic; header form {new-1, old-1}',
    cond_timeout={'q': 280, 't': 900}, flags=('symmpi',))
def fp_sec_plain(form: int, sub: bool, d: int, p: int, q: int, u: int, c0: int, c1: int) -> bool:
    """
    pre: form in (0, 3)
    pre: 128 <= d < 256 and 128 <= p < 256 and 128 <= q < 256 and 128 <= u < 256
    pre: 0 <= c0 < 256 and 0 <= c1 < 256
    post: _
    """
    pubmat = bytes([0, 32, 0xC1, 2, 3, 5]) + bytes([0, 17, 1, 0, 1])
    sec = bytes([0, 8, d, 0, 8, p, 0, 8, q, 0, 8, u])
    body = pub_body(1, pubmat) + b'\x00' + sec + bytes([c0, c1])
    return fixed_point(pack(7 if sub else 5, body, form))


@ob('O8.sec-prot', 'passphrase-protected secret key packets: S2K usage 254 / 255, cipher, specifier (simple / salted / iterated / GNU dummy), IV, opaque encrypted octets',
    'usage in {254, 255}; specifier in {0, 1, 3, 101-gnu-dummy}; cipher CAST5 (IV 8) or AES128 (IV 16); salt/IV/count/encrypted octets with 4 symbolic octets; key algorithm RSA and DSA and EdDSA; header form {new-1, old-2}',
    cond_timeout={'q': 280, 't': 900}, flags=('symmpi',), partitions=[['spec == %d' % k, 'ai == %d' % a] for k in (0, 1, 3, 101) for a in range(3)])
def fp_sec_prot(form: int, usage: int, spec: int, aes: bool, ai: int, x0: int, x1: int, x2: int, x3: int) -> bool:
    """
    pre: form in (0, 4)
    pre: usage in (254, 255)
    pre: spec in (0, 1, 3, 101)
    pre: 0 <= ai < 3
    pre: 0 <= x0 < 256 and 0 <= x1 < 256 and 0 <= x2 < 256 and 0 <= x3 < 256
    post: _
    """
    if ai == 0:
        alg, pubmat = 1, bytes([0, 32, 0xC1, 2, 3, 5]) + bytes([0, 17, 1, 0, 1])
    elif ai == 1:
        alg, pubmat = 17, bytes([0, 16, 0x81, 2]) + bytes([0, 8, 0x83]) + bytes([0, 8, 0x85]) + bytes([0, 16, 0x87, 9])
    else:
        alg, pubmat = 22, OID_ED + bytes([1, 7]) + b'\x40' + bytes(range(32))
    body = pub_body(alg, pubmat) + bytes([usage])
    if spec == 101:
        body += bytes([0, 101]) + b'\x00GNU' + bytes([1])
    else:
        body += bytes([7 if aes else 3, spec, 2])
        if spec >= 1:
            body += bytes([x0, 1, 2, 3, 4, 5, 6, 7])
        if spec == 3:
            body += bytes([x1])
        body += bytes([x2]) + bytes(15 if aes else 7)            # IV
        body += bytes([x3, 9, 8, 7, 6, 5, 4, 3, 2, 1] * 3)         # encrypted secret material + trailer, opaque
    return fixed_point(pack(5, body, form))


# ------------------------------------------------------------------------------------ user attribute
JPEG = b'\xff\xd8\xff\xe0\x00\x10JFIF\x00'


@ob('O8.uattr', 'user attribute packets: image subpacket (header v1, JPEG) with arbitrary image octets, subpacket length in 1- or 5-octet form',
    'image = JPEG magic + 0..3 symbolic octets; subpacket length form 1 or 5 octets; header form {new-1, old-1}', cond_timeout={'q': 280, 't': 900})
def fp_uattr(form: int, l5: bool, tail: bytes) -> bool:
    """
    pre: form in (0, 3)
    pre: len(tail) <= 3
    post: _
    """
    img = JPEG + tail
    sp_body = b'\x01' + b'\x10\x00\x01\x01' + bytes(12) + img
    n = len(sp_body)
    sp = (bytes([255, 0, 0, 0, n]) if l5 else bytes([n])) + sp_body
    return fixed_point(pack(17, sp, 0 if form == 3 else form), must_accept=True)        # tag 17: new format only


@ob('O8.len2', 'two-octet new-format lengths (bodies of 192..8383 octets) on the way in and out', 'user id / literal / marker-like opaque packets with a 200-octet body whose first 2 octets are symbolic; header form new-2',
    cond_timeout={'q': 280, 't': 900}, partitions=[['kind == %d' % k] for k in range(3)])
def fp_len2(kind: int, b0: int, b1: int) -> bool:
    """
    pre: 0 <= kind < 3
    pre: 0 <= b0 < 128 and 0 <= b1 < 128
    post: _
    """
    fill = bytes((i * 5) % 120 + 1 for i in range(198))
    if kind == 0:
        return fixed_point(pack(13, bytes([b0, b1]) + fill, 1), must_accept=True)
    if kind == 1:
        return fixed_point(pack(11, b'b\x00\x00\x00\x00\x00' + bytes([b0, b1]) + fill, 1), must_accept=True)
    return fixed_point(pack(40, bytes([b0, b1]) + fill, 1), must_accept=True)


BIG = bytes((i * 13 + 7) % 251 for i in range(2 ** 17 + 64))


@ob('O8.partial', 'new-format partial body lengths from streaming producers: a literal packet sent as one partial chunk of 2^e octets plus a final short part imports with the '
                  'right content, consumes exactly its octets, and re-serialises to a definite-length fixed point',
    'chunk exponent e in {0,1,2,3,9,15,16,17}; final part of 0..2 octets; first content octet symbolic', cond_timeout={'q': 280, 't': 600})
def fp_partial(ei: int, last: int, x: int) -> bool:
    """
    pre: 0 <= ei < 8
    pre: 0 <= last <= 2
    pre: 0 <= x < 256
    post: _
    """
    e = 0
    for k, v in enumerate((0, 1, 2, 3, 9, 15, 16, 17)):
        if ei == k:
            e = v
    hdr6 = b'b\x00\x00\x00\x00\x00'                       # format, empty file name, time 0
    content = bytes([x]) + BIG[:2 ** e + last + 8]
    body = hdr6 + content
    # first chunk must hold 2^e octets of the body; the rest goes into the final definite part
    first, rest = body[:2 ** e], body[2 ** e:2 ** e + last]
    total = first + rest
    if len(total) < 6:
        return True                                         # not a well-formed literal packet (format, name length, 4 time octets): outside the property
    raw = bytes([0xCB, 224 + e]) + first + bytes([len(rest)]) + rest
    buf = bytearray(raw) + bytearray(TRAIL)
    try:
        p = Packet(buf)
    except PGPError:
        return False
    if bytes(buf) != TRAIL:
        return False
    if bytes(p._contents) != total[6:]:
        return False
    out = bytes(p.__bytearray__())
    sp = split_one(out)
    if sp is None or sp[1] + sp[2] != len(out) or out[sp[1]:] != total:
        return False
    buf2 = bytearray(out) + bytearray(TRAIL)
    p2 = Packet(buf2)
    return bytes(buf2) == TRAIL and bytes(p2.__bytearray__()) == out


@ob('O8.partial2', 'partial body lengths whose final part carries a two- or five-octet length: the literal packet imports with the right content, consumes exactly its octets, '
                   'and re-serialises to a definite-length fixed point',
    'one partial chunk of 2^e octets (e in {9, 10}) then a final part of length from {0, 191, 192, 193, 8383, 8384} in shortest or forced five-octet form; first content octet symbolic', cond_timeout={'q': 280, 't': 600})
def fp_partial_wide(ei: int, fi: int, five: bool, x: int) -> bool:
    """
    pre: 0 <= ei < 2
    pre: 0 <= fi < 6
    pre: 0 <= x < 256
    post: _
    """
    e = 9
    if ei == 1:
        e = 10
    last = 0
    for j, v in enumerate((0, 191, 192, 193, 8383, 8384)):
        if fi == j:
            last = v
    hdr6 = b'b\x00\x00\x00\x00\x00'
    total = hdr6 + bytes([x]) + BIG[:2 ** e + last - 7]
    first, rest = total[:2 ** e], total[2 ** e:]
    if last < 192 and not five:
        lf = bytes([last])
    elif last < 8384 and not five:
        lf = bytes([(last - 192) // 256 + 192, (last - 192) % 256])
    else:
        lf = bytes([255, 0, 0, last // 256, last % 256])
    raw = bytes([0xCB, 224 + e]) + first + lf + rest
    buf = bytearray(raw) + bytearray(TRAIL)
    try:
        p = Packet(buf)
    except PGPError:
        return False
    if bytes(buf) != TRAIL or bytes(p._contents) != total[6:]:
        return False
    out = bytes(p.__bytearray__())
    sp = split_one(out)
    if sp is None or sp[1] + sp[2] != len(out) or out[sp[1]:] != total:
        return False
    buf2 = bytearray(out) + bytearray(TRAIL)
    p2 = Packet(buf2)
    return bytes(buf2) == TRAIL and bytes(p2.__bytearray__()) == out


@ob('O8.grow', 'in-place mutation of a parsed packet: a user id parsed from an old- or new-format packet and then edited so that its length crosses a width boundary '
               're-serialises (after update_hlen) to a packet that consumes exactly its own length and carries the edited value',
    'original header form in {old-1, old-2, new-1}; new length chosen by symbolic index from {190,191,192,193,254,255,256,257,8383,8384,65535,65536}', cond_timeout={'q': 280, 't': 600})
def fp_grow(form: int, li: int) -> bool:
    """
    pre: form in (0, 3, 4)
    pre: 0 <= li < 12
    post: _
    """
    n = 190
    for k, v in enumerate((190, 191, 192, 193, 254, 255, 256, 257, 8383, 8384, 65535, 65536)):
        if li == k:
            n = v
    p = Packet(bytearray(pack(13, b'short', form)))
    p.uid = 'u' * n
    p.update_hlen()
    out = bytes(p.__bytearray__())
    sp = split_one(out)
    if sp is None or sp[1] + sp[2] != len(out) or sp[2] != n:
        return False
    buf = bytearray(out) + bytearray(TRAIL)
    q = Packet(buf)
    return bytes(buf) == TRAIL and type(q) is type(p) and q.uid == p.uid and bytes(q.__bytearray__()) == out


SANITY = ['fp_partial_wide(%d, %d, %s, 65)' % (e, f, v) for e in (0, 1) for f in range(6) for v in (True, False)] + ['fp_partial(0, 0, 5)', 'fp_partial(4, 2, 5)', 'fp_partial(6, 1, 255)', 'fp_partial(7, 2, 0)', 'fp_partial(3, 0, 9)'] + ['fp_grow(%d, %d)' % (f, l) for f in (0, 3, 4) for l in range(12)] + ['fp_userid(0, 3, 1, 1, 1)', 'fp_userid(5, 2, 13, 7, 0)', 'fp_userid(3, 0, 0, 0, 0)', 'fp_userid(0, 2, 7, 3, 0)', 'fp_literal(0, 0x62, b"ab", False, b"xy")', 'fp_literal(2, 0x74, b"", True, b"")',
          'fp_small(0, 0, b"PGP")', 'fp_small(1, 3, b"\\x00\\x05")', 'fp_small(2, 0, b"abc")', 'fp_small(3, 2, b"\\x01\\x02")', 'fp_small(4, 0, b"")',
          'fp_opaque(0, 0, b"a")', 'fp_opaque(7, 2, b"\\x09ab")', 'fp_opaque(13, 0, b"\\xc8a")', 'fp_skesk(0, 3, 2, True, 1, 2, 96, b"")', 'fp_skesk(3, 0, 0, False, 0, 0, 0, b"ab")',
          'fp_skesk(0, 1, 1, True, 255, 0, 0, b"a")', 'fp_pkesk(0, 1, 2, 16, 0x80, 5)', 'fp_pkesk(3, 0, 0, 9, 1, 7)', 'fp_pkesk(0, 0, 0, 8, 0x80, 0)',
          'fp_onepass(0, True, 1, 2, 9, 9, 1)', 'fp_onepass(3, False, 0, 0, 0, 255, 0)', 'fp_onepass(0, False, 0, 0, 0, 255, 7)',
          'fp_signature(0, 0, 0, False)', 'fp_signature(3, 1, 7, True)', 'fp_signature(0, 2, 0xC3, False)', 'fp_signature(0, 3, 0xE9, True)', 'fp_signature(0, 4, 2, False)',
          'fp_pub_rsa(0, False, 32, 0x80, 7, 9, 3, 17, 1, 0, 1)', 'fp_pub_rsa(4, True, 25, 1, 7, 9, 4, 1, 1, 0, 0)', 'fp_pub_ec(0, 0, 1, 2, 0, 0)', 'fp_pub_ec(3, 1, 0, 3, 0, 0)',
          'fp_pub_ec(0, 2, 1, 2, 1, 2)', 'fp_pub_dsa_elg(0, True, 8, 16, 0x80, 0x80, 1, 0x81)', 'fp_pub_dsa_elg(3, False, 1, 9, 1, 1, 1, 0xFF)',
          'fp_sec_plain(0, False, 0x81, 0x83, 0x85, 0x87, 2, 0x10)', 'fp_sec_plain(3, True, 0xFF, 0xFF, 0xFF, 0xFF, 0, 0)',
          'fp_sec_prot(0, 254, 3, True, 0, 1, 96, 3, 4)', 'fp_sec_prot(4, 255, 0, False, 1, 1, 2, 3, 4)', 'fp_sec_prot(0, 254, 101, False, 2, 0, 0, 0, 0)', 'fp_sec_prot(0, 255, 1, True, 2, 9, 9, 9, 9)',
          'fp_uattr(0, False, b"xy")', 'fp_uattr(3, True, b"")', 'fp_len2(0, 65, 66)', 'fp_len2(1, 1, 2)', 'fp_len2(2, 1, 2)']
