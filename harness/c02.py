"""C02 - signatures conform to RFC 4880 5.2.4 (DESIGN.md 3/C02): real hashdata / _sign / option code against the
reference model in specs/rfc4880_sig.py."""
from vlib.h import ob
from specs import rfc4880_sig as R
from harness.sigfix import *          # noqa: fixtures, oracle, fake keys
from harness import sigfix
from pgpy.constants import RevocationReason, Features, KeyServerPreferences, NotationDataFlags
import pgpy.constants as K
import hashlib as _hashlib

install_oracle()

FUNCTIONS_ENCODED = ['pgpy.packet.fields.SubPackets.__copy__', 'pgpy.packet.packets.UserID.parse / __bytearray__', 'pgpy.pgp.PGPSignature.hashdata', 'pgpy.pgp.PGPSignature.new', 'pgpy.pgp.PGPKey._sign', 'pgpy.pgp.PGPKey.sign',
                     'pgpy.pgp.PGPKey.certify', 'pgpy.pgp.PGPKey.revoke', 'pgpy.pgp.PGPKey.revoker', 'pgpy.pgp.PGPKey.bind',
                     'pgpy.pgp.PGPUID.hashdata', 'pgpy.pgp.PGPUID.new', 'pgpy.pgp.PGPKey.hashdata',
                     'pgpy.packet.fields.SubPackets.addnew', 'pgpy.packet.fields.SubPackets.__hashbytearray__',
                     'pgpy.packet.subpackets.signature.* (__bytearray__ of every subpacket the API emits)',
                     'pgpy.packet.fields.EdDSASignature.from_signer', 'pgpy.packet.fields.EdDSASignature.__sig__',
                     'pgpy.packet.fields.RSASignature.from_signer', 'pgpy.packet.fields.RSASignature.__sig__',
                     'pgpy.packet.packets.SignatureV4.__bytearray__', 'pgpy.packet.packets.SignatureV4.parse']
STUBS = ['EdDSAPriv.sign -> records the octets it is asked to sign and returns a token; EdDSAPub.verify -> octets == recorded',
         'hashlib.new -> recording hash (O2.3 only)',
         'keys whose packet body is symbolic: PGPKey subclasses exposing hashdata / is_primary / subkeys / fingerprint as attributes']
OUTSIDE = ['acceptance by GnuPG itself (not installed): the independent implementation is the reference model specs/rfc4880_sig.py',
           'DER encoding of DSA/ECDSA signatures with symbolic integers (pyasn1 is enumerated); time-valued options at fixed values',
           'text canonicalisation of a lone CR (RFC 4880 is silent; model follows "LF not preceded by CR")']
ASSUMPTIONS = ['RFC 4880 5.2.4 and 5.2.3.x as written in specs/rfc4880_sig.py']

AREA0 = R.area([R.sp_creation_time(T0_INT)])


def hashed_area(sig):
    return bytes(sig._signature.subpackets.__hashbytearray__())


# ------------------------------------------------------------------------------------ O2.1 hash-input differential
@ob('O2.1-doc', 'hash input of binary and text document signatures equals the RFC model (data, version/type/algorithms, hashed area, 04 FF len4)',
    'document of 0..4 symbolic octets; type in {0x00, 0x01}', cond_timeout={'q': 240, 't': 900},
    partitions=[['t == 0'], ['t == 1']])
def hd_doc(t: int, doc: bytes) -> bool:
    """
    pre: t in (0, 1)
    pre: len(doc) <= 4
    post: _
    """
    sig = mk_sig(SignatureType(t))
    got = bytes(sig.hashdata(doc))
    return got == R.hash_input(t, 22, 8, AREA0, doc=doc)


@ob('O2.1-nosubj', 'standalone and timestamp signatures hash only the signature fields', 'type in {0x02, 0x40}; hash algorithm over the 7 supported ids',
    cond_timeout={'q': 120, 't': 300})
def hd_nosubj(t: int, h: int) -> bool:
    """
    pre: t in (2, 0x40)
    pre: h in (1, 2, 3, 8, 9, 10, 11)
    post: _
    """
    sig = mk_sig(SignatureType(t), halg=HashAlgorithm(h))
    return bytes(sig.hashdata(None)) == R.hash_input(t, 22, h, AREA0)


@ob('O2.1-uid', 'certifications of a user id: 99 len2 key, B4 len4 uid-octets, trailer - for arbitrary UTF-8 user ids and key bodies',
    'certification type in {0x10..0x13, 0x30}; user id text of 0..3 symbolic characters; primary key body of 1..2 symbolic octets',
    cond_timeout={'q': 280, 't': 1200}, partitions=[['t == %d' % t] for t in (0x10, 0x11, 0x12, 0x13, 0x30)])
def hd_uid(t: int, uid: str, kb: bytes) -> bool:
    """
    pre: t in (0x10, 0x11, 0x12, 0x13, 0x30)
    pre: len(uid) <= 3
    pre: 1 <= len(kb) <= 2
    post: _
    """
    k = FakePrimary(kb)
    u = PGPUID.new(uid)
    u._parent = k
    got = bytes(mk_sig(SignatureType(t)).hashdata(u))
    return got == R.hash_input(t, 22, 8, AREA0, primary=kb, uid=uid.encode('utf-8'))


JPEG = b'\xff\xd8\xff\xe0\x00\x10JFIF\x00'


@ob('O2.1-attr', 'certifications of a user attribute: D1 len4 attribute-subpackets (image header 01 .. + image octets)',
    'certification type in {0x13, 0x30}; image = JPEG magic + 0..3 symbolic octets; key body of 1..2 symbolic octets',
    cond_timeout={'q': 280, 't': 900}, partitions=[['t == 0x13'], ['t == 0x30']])
def hd_attr(t: int, tail: bytes, kb: bytes) -> bool:
    """
    pre: t in (0x13, 0x30)
    pre: len(tail) <= 3
    pre: 1 <= len(kb) <= 2
    post: _
    """
    img = JPEG + tail
    k = FakePrimary(kb)
    u = PGPUID.new(bytearray(img))
    u._parent = k
    got = bytes(mk_sig(SignatureType(t)).hashdata(u))
    body = b'\x10\x00\x01\x01' + b'\x00' * 12 + img             # image attribute subpacket: header v1, JPEG
    attr = R.sp_len(len(body) + 1) + b'\x01' + body
    return got == R.hash_input(t, 22, 8, AREA0, primary=kb, attr=attr)


@ob('O2.1-key', 'signatures over keys: direct-key and key revocation hash the key; subkey binding, primary-key binding and subkey '
               'revocation hash the primary key and then the subkey', 'type in {0x1F, 0x20, 0x18, 0x19, 0x28}; primary and subkey bodies of 1..3 symbolic octets each',
    cond_timeout={'q': 280, 't': 900}, partitions=[['t == %d' % t] for t in (0x1F, 0x20, 0x18, 0x19, 0x28)])
def hd_key(t: int, pb: bytes, sb: bytes) -> bool:
    """
    pre: t in (0x1F, 0x20, 0x18, 0x19, 0x28)
    pre: 1 <= len(pb) <= 3 and 1 <= len(sb) <= 3
    post: _
    """
    p = FakePrimary(pb)
    s = FakeSub(sb, p)
    if t in (0x1F, 0x20):
        got = bytes(mk_sig(SignatureType(t)).hashdata(p))
        return got == R.hash_input(t, 22, 8, AREA0, primary=pb)
    if t == 0x19:
        # primary-key binding is issued by the subkey over the primary: PGPy is handed the primary and looks the subkey up by signer
        sig = mk_sig(SignatureType(t), signer=s.fingerprint.keyid)
        got = bytes(sig.hashdata(p))
        want = R.hash_input(t, 22, 8, R.area([R.sp_creation_time(T0_INT)]), primary=pb, subkey=sb)
        return got == want
    got = bytes(mk_sig(SignatureType(t)).hashdata(s))
    return got == R.hash_input(t, 22, 8, AREA0, primary=pb, subkey=sb)


@ob('O2.1-alg', 'the public-key and hash algorithm octets are hashed as announced in the packet',
    'public-key algorithm over the 6 signing-capable ids, hash algorithm over the 7 supported ids, document of 0..2 symbolic octets',
    cond_timeout={'q': 240, 't': 600})
def hd_alg(pk: int, h: int, doc: bytes) -> bool:
    """
    pre: pk in (1, 3, 17, 19, 22)
    pre: h in (1, 2, 3, 8, 9, 10, 11)
    pre: len(doc) <= 2
    post: _
    """
    sig = PGPSignature.new(SignatureType.BinaryDocument, PubKeyAlgorithm(pk), HashAlgorithm(h), KEY.fingerprint.keyid, created=T0)
    return bytes(sig.hashdata(doc)) == R.hash_input(0, pk, h, AREA0, doc=doc)


# ------------------------------------------------------------------------------------ O2.2 option subpackets through the real API
FPR = bytes.fromhex(str(KEY.fingerprint))
FPR2 = bytes.fromhex(str(KEY2.fingerprint))


def signed_octets():
    return Oracle.log[-1]


def _exp(ei):
    return (None, 0, 1, 2 ** 31, 2 ** 32 - 1)[ei]


@ob('O2.2-sign', 'PGPKey.sign options: signature expiry, revocable, policy URI, issuer fingerprint on/off are encoded per RFC 5.2.3.x '
                 'in the hashed area and the primitive signs exactly the RFC hash input',
    'document 0..1 symbolic octets; policy URI absent or 0..1 (quick) / 0..2 (thorough) symbolic characters; revocable and fingerprint booleans; expiry from {none, 0, 1, 2^31, 2^32-1} s',
    cond_timeout={'q': 280, 't': 1500}, partitions={'q': [['ei == %d' % i, 'len(uri) <= 1', 'len(doc) == 1'] for i in range(5)], 't': [['ei == %d' % i, 'revocable == %s' % r] for i in range(5) for r in (True, False)]})
def opt_sign(doc: bytes, uri: str, revocable: bool, fpron: bool, ei: int, use_uri: bool) -> bool:
    """
    pre: len(doc) <= 1
    pre: len(uri) <= 2
    pre: 0 <= ei < 5
    post: _
    """
    from datetime import timedelta
    exp = _exp(ei)
    prefs = dict(created=T0, revocable=revocable, include_issuer_fingerprint=fpron, hash=HashAlgorithm.SHA256)
    if exp is not None:
        prefs['expires'] = timedelta(seconds=exp)
    if use_uri:
        prefs['policy_uri'] = uri
    Oracle.reset()
    sig = KEY.sign(doc, **prefs)
    sps = [R.sp_creation_time(T0_INT)]
    if exp is not None:
        sps.append(R.sp_sig_expiry(exp))
    if not revocable:
        sps.append(R.sp_revocable(False))
    if use_uri:
        sps.append(R.sp_policy(uri.encode('utf-8')))
    if fpron:
        sps.append(R.sp_issuer_fpr(FPR))
    want = R.hash_input(0, 22, 8, R.area(sps), doc=doc)
    return signed_octets() == want and sig.type == SignatureType.BinaryDocument


NAMES = ('', 'n', 'ab', '\u00e9', '\u20ac', '\U0001F600', 'a\u00e9')


@ob('O2.2-notation', 'notation data option: flags 80 00 00 00, two-octet name and value lengths in octets, UTF-8 name and value',
    'name from a 7-element list with 1-, 2-, 3- and 4-octet UTF-8 characters (a symbolic dict key is enumerated by the tool); value of 0..1 (quick) / 0..2 (thorough) '
    'symbolic characters over all of Unicode', cond_timeout={'q': 280, 't': 1500},
    partitions={'q': [['len(nval) <= 1']], 't': [['ni == %d' % i] for i in range(7)]})
def opt_notation(ni: int, nval: str) -> bool:
    """
    pre: 0 <= ni < 7
    pre: len(nval) <= 2
    post: _
    """
    nname = NAMES[ni]
    Oracle.reset()
    KEY.sign(b'd', created=T0, hash=HashAlgorithm.SHA256, notation={nname: nval}, include_issuer_fingerprint=False)
    sps = [R.sp_creation_time(T0_INT), R.sp_notation(0x80, nname.encode('utf-8'), nval.encode('utf-8'))]
    return signed_octets() == R.hash_input(0, 22, 8, R.area(sps), doc=b'd')


FLAGVALS = (KeyFlags.Certify, KeyFlags.Sign, KeyFlags.EncryptCommunications, KeyFlags.EncryptStorage, KeyFlags.Authentication)


def _usage(fmask):
    usage = set()
    fbyte = 0
    for i, f in enumerate(FLAGVALS):
        if (fmask // (2 ** i)) % 2:
            usage.add(f)
            fbyte += int(f)
    return usage, fbyte


@ob('O2.2-cert-a', 'self-certification: user id text and key-flags option (any subset of the five capabilities) are hashed per RFC',
    'user id of 0..1 (quick) / 0..2 (thorough) symbolic characters; flag mask over all 32 subsets', cond_timeout={'q': 280, 't': 1500},
    partitions={'q': [['fmask %% 4 == %d' % i, 'len(uid) <= 1'] for i in range(4)], 't': [['fmask %% 8 == %d' % i] for i in range(8)]})
def opt_selfcert_flags(uid: str, fmask: int) -> bool:
    """
    pre: len(uid) <= 2
    pre: 0 <= fmask < 32
    post: _
    """
    usage, fbyte = _usage(fmask)
    u = PGPUID.new(uid)
    u._parent = KEY
    Oracle.reset()
    KEY.certify(u, level=SignatureType.Positive_Cert, created=T0, hash=HashAlgorithm.SHA256, usage=usage)
    sps = [R.sp_creation_time(T0_INT), R.sp_key_flags(fbyte), R.sp_features(0x01), R.sp_issuer_fpr(FPR)]
    return signed_octets() == R.hash_input(0x13, 22, 8, R.area(sps), primary=bytes(KEY.hashdata), uid=uid.encode('utf-8'))


@ob('O2.2-cert-b', 'self-certification preference options: cipher / hash / compression lists, exportable, primary flag, key-server flags, key expiry',
    'one factor at a time: all 27 combinations of three lists chosen from 3 lists each; all 18 combinations of exportable / primary in {absent,true,false} and the key-server '
    'no-modify flag; key expiry from {none, 0, 1, 2^31, 2^32-1} s',
    cond_timeout={'q': 280, 't': 900},
    partitions=[['xi == 0', 'pi == 0', 'not ksflag', 'ei == 0', 'ci == %d' % i] for i in range(3)] +      # all 27 list combinations
               [['ci == 1 and hi == 1 and zi == 1', 'ei == 0', 'xi == %d' % i] for i in range(3)] +        # all 18 flag combinations
               [['ci == 1 and hi == 1 and zi == 1', 'xi == 0', 'pi == 0', 'not ksflag', 'ei == %d' % i] for i in range(1, 5)])   # expiry values
def opt_selfcert_prefs(ci: int, hi: int, zi: int, xi: int, pi: int, ksflag: bool, ei: int) -> bool:
    """
    pre: 0 <= ci < 3 and 0 <= hi < 3 and 0 <= zi < 3
    pre: 0 <= xi < 3 and 0 <= pi < 3
    pre: 0 <= ei < 5
    post: _
    """
    from datetime import timedelta
    ciphers = ([], [SymmetricKeyAlgorithm.AES256], [SymmetricKeyAlgorithm.AES128, SymmetricKeyAlgorithm.CAST5, SymmetricKeyAlgorithm.TripleDES])[ci]
    hashes_ = ([], [HashAlgorithm.SHA512], [HashAlgorithm.SHA256, HashAlgorithm.SHA1])[hi]
    comps = ([], [CompressionAlgorithm.ZLIB], [CompressionAlgorithm.BZ2, CompressionAlgorithm.Uncompressed])[zi]
    exp = _exp(ei)
    u = KEY.userids[0]
    prefs = dict(created=T0, hash=HashAlgorithm.SHA256, usage={KeyFlags.Sign}, ciphers=ciphers, hashes=hashes_, compression=comps)
    if xi:
        prefs['exportable'] = (xi == 1)
    if pi:
        prefs['primary'] = (pi == 1)
    if ksflag:
        prefs['keyserver_flags'] = {KeyServerPreferences.NoModify}
    if exp is not None:
        prefs['key_expiration'] = timedelta(seconds=exp)
    Oracle.reset()
    KEY.certify(u, level=SignatureType.Positive_Cert, **prefs)
    sps = [R.sp_creation_time(T0_INT), R.sp_key_flags(2)]
    if xi:
        sps.append(R.sp_exportable(xi == 1))
    if exp is not None:
        sps.append(R.sp_key_expiry(exp))
    sps.append(R.sp_pref_sym([int(c) for c in ciphers]))
    if hashes_:
        sps.append(R.sp_pref_hash([int(h) for h in hashes_]))
    sps.append(R.sp_pref_comp([int(c) for c in comps]))
    if ksflag:
        sps.append(R.sp_keyserver_prefs(0x80))
    if pi:
        sps.append(R.sp_primary_uid(pi == 1))
    sps.append(R.sp_features(0x01))
    sps.append(R.sp_issuer_fpr(FPR))
    return signed_octets() == R.hash_input(0x13, 22, 8, R.area(sps), primary=bytes(KEY.hashdata), uid=b'a')


@ob('O2.2-cert-c', 'self-certification: preferred key server URI', 'URI of 0..1 (quick) / 0..2 (thorough) symbolic characters', cond_timeout={'q': 280, 't': 900},
    partitions={'q': [['len(ksuri) <= 1']], 't': [['len(ksuri) == %d' % i] for i in range(3)]})
def opt_selfcert_ks(ksuri: str) -> bool:
    """
    pre: len(ksuri) <= 2
    post: _
    """
    Oracle.reset()
    KEY.certify(KEY.userids[0], level=SignatureType.Positive_Cert, created=T0, hash=HashAlgorithm.SHA256, usage={KeyFlags.Sign}, keyserver=ksuri)
    sps = [R.sp_creation_time(T0_INT), R.sp_key_flags(2), R.sp_pref_keyserver(ksuri.encode('utf-8')), R.sp_features(0x01), R.sp_issuer_fpr(FPR)]
    return signed_octets() == R.hash_input(0x13, 22, 8, R.area(sps), primary=bytes(KEY.hashdata), uid=b'a')


@ob('O2.2-3rd', 'third-party certification (trust level/amount, regular expression, exportable) and revocation (reason code + comment)',
    'trust level and amount symbolic octets; regex and comment 0..2 symbolic chars; reason code over the 5 defined values; exportable symbolic',
    cond_timeout={'q': 280, 't': 1500},
    partitions={'q': [['mode == 0', 'use_re', 'len(regex) <= 1', 'exportable'], ['mode == 0', 'use_re', 'len(regex) <= 1', 'not exportable'], ['mode == 0', 'not use_re', 'regex == ""'],
                      ['mode == 1', 'len(comment) <= 1', 'regex == ""']],
                't': [['mode == 0', 'use_re', 'exportable'], ['mode == 0', 'use_re', 'not exportable'], ['mode == 0', 'not use_re', 'regex == ""']] + [['mode == 1', 'ri == %d' % i, 'regex == ""'] for i in range(5)]})
def opt_thirdparty_revoke(mode: int, level: int, amount: int, regex: str, use_re: bool, exportable: bool, ri: int, comment: str) -> bool:
    """
    pre: mode in (0, 1)
    pre: 0 <= level < 256 and 0 <= amount < 256
    pre: len(regex) <= 2 and len(comment) <= 2
    pre: 0 <= ri < 5
    pre: mode == 0 or (level == 0 and amount == 0 and not use_re and not exportable)
    pre: mode == 1 or (ri == 0 and comment == "")
    post: _
    """
    target = PUB2.userids[0]
    Oracle.reset()
    if mode == 0:
        prefs = dict(created=T0, hash=HashAlgorithm.SHA256, trust=(level, amount), exportable=exportable)
        if use_re:
            prefs['regex'] = regex
        KEY.certify(target, level=SignatureType.Generic_Cert, **prefs)
        sps = [R.sp_creation_time(T0_INT), R.sp_exportable(exportable), R.sp_trust(level, amount)]
        if use_re:
            sps.append(R.sp_regex(regex.encode('utf-8')))
        sps.append(R.sp_issuer_fpr(FPR))
        want = R.hash_input(0x10, 22, 8, R.area(sps), primary=bytes(PUB2.hashdata), uid=b'b')
        return signed_octets() == want
    reason = (RevocationReason.NotSpecified, RevocationReason.Superseded, RevocationReason.Compromised, RevocationReason.Retired,
              RevocationReason.UserID)[ri]
    KEY.revoke(KEY.userids[0], created=T0, hash=HashAlgorithm.SHA256, reason=reason, comment=comment)
    sps = [R.sp_creation_time(T0_INT), R.sp_reason(int(reason), comment.encode('utf-8')), R.sp_issuer_fpr(FPR)]
    want = R.hash_input(0x30, 22, 8, R.area(sps), primary=bytes(KEY.hashdata), uid=b'a')
    return signed_octets() == want


@ob('O2.2-key', 'designated revoker (class octet 80/C0, algorithm, fingerprint; not revocable), key and subkey revocation, subkey binding with flags',
    'operation in {revoker normal, revoker sensitive, revoke key, revoke subkey, bind subkey}; reason over 5 values; flag mask over 5 bits',
    cond_timeout={'q': 280, 't': 900}, partitions=[['op == %d' % i] for i in range(4)] + [['op == 4', 'fmask %% 4 == %d' % i] for i in range(4)])
def opt_keyops(op: int, ri: int, fmask: int) -> bool:
    """
    pre: 0 <= op < 5
    pre: 0 <= ri < 5
    pre: 1 <= fmask < 32
    post: _
    """
    reason = (RevocationReason.NotSpecified, RevocationReason.Superseded, RevocationReason.Compromised, RevocationReason.Retired,
              RevocationReason.UserID)[ri]
    sub = KEY.subkeys[SUBID]
    Oracle.reset()
    pbody, sbody = bytes(KEY.hashdata), bytes(sub.hashdata)
    if op in (0, 1):
        KEY.revoker(PUB2, created=T0, hash=HashAlgorithm.SHA256, sensitive=(op == 1))
        sps = [R.sp_creation_time(T0_INT), R.sp_revocation_key(0xC0 if op == 1 else 0x80, 22, FPR2), R.sp_revocable(False), R.sp_issuer_fpr(FPR)]
        return signed_octets() == R.hash_input(0x1F, 22, 8, R.area(sps), primary=pbody)
    if op == 2:
        KEY.revoke(KEY, created=T0, hash=HashAlgorithm.SHA256, reason=reason, comment='')
        sps = [R.sp_creation_time(T0_INT), R.sp_reason(int(reason), b''), R.sp_issuer_fpr(FPR)]
        return signed_octets() == R.hash_input(0x20, 22, 8, R.area(sps), primary=pbody)
    if op == 3:
        KEY.revoke(sub, created=T0, hash=HashAlgorithm.SHA256, reason=reason, comment='')
        sps = [R.sp_creation_time(T0_INT), R.sp_reason(int(reason), b''), R.sp_issuer_fpr(FPR)]
        return signed_octets() == R.hash_input(0x28, 22, 8, R.area(sps), primary=pbody, subkey=sbody)
    usage, fbyte = _usage(fmask)
    KEY.bind(sub, created=T0, hash=HashAlgorithm.SHA256, usage=usage)
    # two signatures are made: the subkey's cross-signature (0x19) first, then the binding (0x18)
    if len(Oracle.log) != 2:
        return False
    subfpr = bytes.fromhex(str(sub.fingerprint))
    want19 = R.hash_input(0x19, 22, 8, R.area([R.sp_creation_time(T0_INT), R.sp_issuer_fpr(subfpr)]), primary=pbody, subkey=sbody)
    want18 = R.hash_input(0x18, 22, 8, R.area([R.sp_creation_time(T0_INT), R.sp_key_flags(fbyte), R.sp_issuer_fpr(FPR)]), primary=pbody, subkey=sbody)
    return Oracle.log[0][:len(want19) - 6 - 0] [:4] == want19[:4] and Oracle.log[1] == want18 and _same_but_time(Oracle.log[0], want19)


def _same_but_time(got, want):
    """the cross-signature's creation time is taken from the clock (bind() does not forward `created` to it): compare everything else"""
    if len(got) != len(want):
        return False
    i = want.rfind(R.sp_creation_time(T0_INT))
    return got[:i + 2] == want[:i + 2] and got[i + 6:] == want[i + 6:]


# ------------------------------------------------------------------------------------ O2.5 export / import stability
@ob('O2.5', 'a signature PGPy made still hashes to the signed octets after binary export and re-import (also when verified twice, and for a copy of the imported object), '
            'for text-valued hashed subpackets with arbitrary characters', 'policy URI and notation value of 0..1 symbolic characters each (all of Unicode); document of 0..1 symbolic octets',
    cond_timeout={'q': 280, 't': 900}, partitions=[['len(uri) == %d' % a, 'len(nval) == %d' % b] for a in range(2) for b in range(2)])
def export_import_stable(doc: bytes, uri: str, nval: str) -> bool:
    """
    pre: len(doc) <= 1
    pre: len(uri) <= 1 and len(nval) <= 1
    post: _
    """
    Oracle.reset()
    sig = KEY.sign(doc, created=T0, hash=HashAlgorithm.SHA256, policy_uri=uri, notation={'n': nval})
    signed = signed_octets()
    wire = sig.__bytes__()
    rx = PGPSignature.from_blob(wire)
    first = bytes(rx.hashdata(doc))
    second = bytes(rx.hashdata(doc))
    if not (first == signed and second == signed and rx.__bytes__() == wire):
        return False
    # ... and so does a copy of the imported signature (what a derived public key or a copied key carries)
    import copy as _copy
    cp = _copy.copy(rx)
    return bytes(cp.hashdata(doc)) == signed and cp.__bytes__() == wire


# ------------------------------------------------------------------------------------ O2.6 certifications and user id text forms
from vlib.h import native
from pgpy.packet import Packet as _Packet
NAMES = ('a', '\u00e9', 'e\u0301', '\u212b', '\u00c5', 'A\u030a', '\u1112\u1161\u11ab', '\ud55c', '\U0001F600', 'x <y@z>', ' a', '\ufb01', 'fi')


def _cert_roundtrip(i, ctype):
    name = NAMES[i]
    Oracle.reset()
    uid = PGPUID.new(name)
    key = FakePrimary(b'kk')
    uid._parent = key
    sig = KEY.certify(uid, (SignatureType.Generic_Cert, SignatureType.Positive_Cert)[ctype], created=T0, hash=HashAlgorithm.SHA256)
    signed = signed_octets()
    # the user id packet and the certification travel as octets and come back
    upkt = bytes(uid._uid.__bytearray__())
    if upkt[2:] != name.encode('utf-8'):
        return False
    back = PGPUID()
    back._uid = _Packet(bytearray(upkt))
    back._parent = key
    rx = PGPSignature.from_blob(sig.__bytes__())
    return bytes(rx.hashdata(back)) == signed and bytes(back._uid.__bytearray__()) == upkt and back.name == uid.name


@ob('O2.6', 'a certification PGPy made over a user id hashes to the signed octets after the user id packet and the signature were exported and re-imported - '
            'for names in any Unicode normalisation form (nothing is normalised on the way in or out)',
    'name by symbolic index from 13 (ASCII, precomposed / decomposed accents, compatibility code points U+212B U+FB01, Hangul jamo vs syllable, non-BMP, leading blank); generic / positive certification; native per path',
    cond_timeout={'q': 200, 't': 600})
def cert_roundtrip_names(i: int, ctype: int) -> bool:
    """
    pre: 0 <= i < 13
    pre: 0 <= ctype < 2
    post: _
    """
    a = c = 0
    for k in range(13):
        if i == k:
            a = k
    if ctype == 1:
        c = 1
    with native():
        return _cert_roundtrip(a, c)


# ------------------------------------------------------------------------------------ O2.3 left 16 bits
class Rec:
    last = None

    def __init__(self, name):
        self.data = b''
        self.name = name
        self.digest_size = _hashlib.new(name).digest_size
        Rec.last = self

    def update(self, b):
        self.data = self.data + bytes(b)

    def digest(self):
        n = len(self.data)
        return bytes([self.data[-7] if n >= 7 else 0xEE, self.data[0] if n else 0xDD]) + bytes(self.digest_size - 2)


class _HL:
    new = staticmethod(lambda name, *a, **k: Rec(name))


K.hashlib = _HL         # HashAlgorithm.hasher: the left-16 digest inside _sign must not push symbolic octets into C code


H4 = (HashAlgorithm.SHA256, HashAlgorithm.SHA512, HashAlgorithm.SHA1, HashAlgorithm.SHA384, HashAlgorithm.SHA224)


@ob('O2.3', 'the left-16 field is the first two octets of the digest - computed with the signature\'s OWN hash algorithm - of exactly the octets handed to the signing primitive',
    'document of 0..3 symbolic octets; hash by symbolic index from {SHA256 (the key\'s preference), SHA512, SHA1, SHA384, SHA224, or none given}; recording hash that also records which algorithm was asked for',
    cond_timeout={'q': 200, 't': 600}, partitions=[['hi == %d' % k] for k in range(6)])
def left16(doc: bytes, hi: int = 0) -> bool:
    """
    pre: len(doc) <= 3
    pre: 0 <= hi < 6
    post: _
    """
    Oracle.reset()
    want_alg = HashAlgorithm.SHA256
    for k in range(5):
        if hi == k:
            want_alg = H4[k]
    if hi == 5:
        sig = KEY.sign(doc, created=T0)
    else:
        sig = KEY.sign(doc, created=T0, hash=want_alg)
    fed = Rec.last.data
    h2 = bytes(sig._signature.hash2)
    if sig.hash_algorithm != want_alg or Rec.last.name.lower().replace('-', '') != want_alg.name.lower():
        return False
    return fed == signed_octets() and h2 == bytes([fed[-7], fed[0]]) and len(h2) == 2


# ------------------------------------------------------------------------------------ O2.4 signature integers
@ob('O2.4', 'signature integers survive from_signer -> packet octets -> parse -> __sig__ (EdDSA: two fixed-width halves; RSA: integer value)',
    'EdDSA: both 32-octet halves with leading and trailing octets each from {00,01,80,FF} (256 combinations incl. leading zero octets; 256-bit symbolic integers are beyond the solver); RSA: integer below 2^32',
    cond_timeout={'q': 280, 't': 900}, flags=('symmpi',), partitions=[['alg == 22', 'a0 == %d' % i] for i in range(4)] + [['alg == 1']])
def sig_integers(alg: int, a0: int, a1: int, a2: int, b0: int, b1: int, b2: int, v: int) -> bool:
    """
    pre: alg in (22, 1)
    pre: 0 <= a0 < 4 and 0 <= a1 < 4 and a2 == 0
    pre: 0 <= b0 < 4 and 0 <= b1 < 4 and b2 == 0
    pre: 0 <= v < 2**32
    pre: alg == 1 or v == 0
    pre: alg == 22 or (a0 == 0 and a1 == 0 and b0 == 0 and b1 == 0)
    post: _
    """
    from pgpy.packet import Packet
    if alg == 22:
        lead = (0x00, 0x01, 0x80, 0xFF)
        pick = [0, 0, 0, 0]
        for j, idx in enumerate((a0, a1, b0, b1)):          # concrete octet per path (if-chain), no 256-bit symbolic terms
            for k in range(4):
                if idx == k:
                    pick[j] = lead[k]
        r = bytes([pick[0]]) + bytes(30) + bytes([pick[1]])
        s = bytes([pick[2]]) + bytes(30) + bytes([pick[3]])
        sig = PGPSignature.new(SignatureType.BinaryDocument, PubKeyAlgorithm.EdDSA, HashAlgorithm.SHA256, KEY.fingerprint.keyid, created=T0)
        sig._signature.signature.from_signer(r + s)
        want = r + s
    else:
        sig = PGPSignature.new(SignatureType.BinaryDocument, PubKeyAlgorithm.RSAEncryptOrSign, HashAlgorithm.SHA256, KEY.fingerprint.keyid, created=T0)
        raw = bytes([(v // 16777216) % 256, (v // 65536) % 256, (v // 256) % 256, v % 256])
        sig._signature.signature.from_signer(raw)
        want = None
    sig._signature.update_hlen()
    wire = bytearray(sig.__bytes__())
    p = Packet(wire)
    got = bytes(p.signature.__sig__())
    if alg == 22:
        return got == want and len(wire) == 0
    # RSA: __sig__ is the minimal big-endian integer; RSAPub.verify left-pads it to the modulus size
    return int.from_bytes(got, 'big') == v and len(wire) == 0 and (v == 0 or got[0] != 0 or len(got) == 1)


SANITY = ['cert_roundtrip_names(%d, %d)' % (i, i % 2) for i in range(13)] + ['hd_doc(0, b"ab\\n")', 'hd_doc(1, b"a\\nb\\r\\n")', 'hd_doc(1, b"\\n\\n")', 'hd_nosubj(2, 8)', 'hd_nosubj(0x40, 2)',
          'hd_uid(0x13, "h\\u00e9", b"\\x04\\x01")', 'hd_uid(0x30, "", b"k")', 'hd_uid(0x10, "a b", b"\\xff")',
          'hd_attr(0x13, b"\\x01\\x02", b"\\x04")', 'hd_attr(0x30, b"", b"k")',
          'hd_key(0x1F, b"ab", b"cd")', 'hd_key(0x20, b"y", b"x")', 'hd_key(0x18, b"ab", b"cde")', 'hd_key(0x19, b"ab", b"c")', 'hd_key(0x28, b"a", b"b")',
          'hd_alg(1, 2, b"x")', 'hd_alg(19, 11, b"")',
          'opt_sign(b"d", "u", True, True, 0, True)', 'opt_sign(b"", "", False, False, 4, False)', 'opt_sign(b"d", "h\\u00e9", False, True, 2, True)',
          'opt_notation(1, "v")', 'opt_notation(3, "\\U0001F600")', 'opt_notation(0, "")', 'opt_notation(6, "\\u00e9x")',
          'opt_selfcert_flags("u", 3)', 'opt_selfcert_flags("\\u00e9", 31)', 'opt_selfcert_flags("", 0)',
          'opt_selfcert_prefs(1, 1, 1, 0, 0, False, 0)', 'opt_selfcert_prefs(2, 2, 2, 1, 2, True, 0)', 'opt_selfcert_prefs(1, 1, 1, 2, 1, False, 4)',
          'opt_selfcert_ks("")', 'opt_selfcert_ks("h\\u00e9")',
          'opt_thirdparty_revoke(0, 1, 120, "x", True, True, 0, "")', 'opt_thirdparty_revoke(0, 0, 0, "", False, False, 0, "")',
          'opt_thirdparty_revoke(1, 0, 0, "", False, False, 2, "c\\u00e9")',
          'opt_keyops(0, 0, 1)', 'opt_keyops(1, 0, 1)', 'opt_keyops(2, 3, 1)', 'opt_keyops(3, 1, 1)', 'opt_keyops(4, 0, 2)', 'opt_keyops(4, 0, 12)',
          'export_import_stable(b"d", "\\u00e9", "v")', 'export_import_stable(b"", "", "\\u20ac")', 'left16(b"abc")', 'left16(b"")',
          'sig_integers(22, 0, 0, 0, 0, 2, 0, 0)', 'sig_integers(22, 3, 1, 0, 2, 3, 0, 0)', 'sig_integers(1, 0, 0, 0, 0, 0, 0, 65537)',
          'sig_integers(1, 0, 0, 0, 0, 0, 0, 255)']
