"""C16 - key-usage policy: operations use a component allowed to perform them, or refuse (DESIGN.md 3/C16).

Fixture keys are built once with real key material; per path the KeyFlags subpackets of the relevant self-signatures are
overwritten from symbolic choices, a second (later) binding may be added, and the real KeyAction machinery decides."""
from datetime import datetime, timezone

from vlib.h import ob, native
from harness.sigfix import *          # noqa
from harness import encfix
from harness.encfix import Cipher, Feed
from pgpy import PGPMessage, PGPKey
from pgpy.errors import PGPError
from pgpy.packet.packets import PKESessionKeyV3
import pgpy.constants as K
import pgpy.packet.fields as F

install_oracle()
encfix.install()

FUNCTIONS_ENCODED = ['pgpy.decorators.KeyAction.usage', 'pgpy.decorators.KeyAction.check_attributes', 'pgpy.decorators.KeyAction.__call__', 'pgpy.pgp.PGPKey._get_key_flags',
                     'pgpy.pgp.PGPKey.self_signatures', 'pgpy.pgp.PGPUID.selfsig', 'pgpy.pgp.PGPKey.sign', 'pgpy.pgp.PGPKey.certify', 'pgpy.pgp.PGPKey.encrypt', 'pgpy.pgp.PGPKey.decrypt',
                     'pgpy.pgp.PGPSignature.new (issuer)', 'pgpy.pgp.PGPKey._sign (issuer fingerprint)']
STUBS = ['signature primitive -> oracle', 'PKESessionKeyV3.encrypt_sk / decrypt_sk -> record which key packet was used, hand back a fixed session key',
         'cipher / entropy stand-ins of harness/encfix.py']
OUTSIDE = ['more than two subkeys; more than two identities', 'algorithm capability (a component flagged for encryption whose algorithm cannot encrypt)']
ASSUMPTIONS = ['"most recent self-signature": the binding / certification with the latest creation time']

T_OLD = datetime.fromtimestamp(1_600_000_000, timezone.utc)
T_NEW = datetime.fromtimestamp(1_600_000_500, timezone.utc)
FLAGSETS = (set(), {KeyFlags.Certify}, {KeyFlags.Sign}, {KeyFlags.EncryptCommunications, KeyFlags.EncryptStorage}, {KeyFlags.Sign, KeyFlags.Certify},
            {KeyFlags.Authentication}, {KeyFlags.EncryptStorage})


def build():
    k = PGPKey.new(PubKeyAlgorithm.EdDSA, EllipticCurveOID.Ed25519, created=T_OLD)
    k.add_uid(PGPUID.new('owner'), usage={KeyFlags.Certify}, hashes=[HashAlgorithm.SHA256], ciphers=[K.SymmetricKeyAlgorithm.AES128],
              compression=[K.CompressionAlgorithm.Uncompressed], created=T_OLD)
    s1 = PGPKey.new(PubKeyAlgorithm.EdDSA, EllipticCurveOID.Ed25519, created=T_OLD)
    k.add_subkey(s1, usage={KeyFlags.Authentication}, created=T_OLD)
    s2 = PGPKey.new(PubKeyAlgorithm.EdDSA, EllipticCurveOID.Ed25519, created=T_OLD)   # (capability flags are what is studied, not what the algorithm can do)
    k.add_subkey(s2, usage={KeyFlags.Authentication}, created=T_OLD)
    return k


KEYP = build()
SUBS = list(KEYP.subkeys.values())


def set_flags(sig, fs):
    sig._signature.subpackets['h_KeyFlags'][0].flags = set(fs)


def pick(i):
    for k in range(len(FLAGSETS)):
        if i == k:
            return FLAGSETS[k]
    return FLAGSETS[0]


def configure(f0, f1, f2, rebound, f1new):
    """primary gets FLAGSETS[f0] on its identity; subkey j gets FLAGSETS[fj] on its (old) binding; optionally subkey 1 gets a second,
    later binding with FLAGSETS[f1new].  Returns the effective flag sets per component and an undo function."""
    uid = KEYP.userids[0]
    set_flags(uid.selfsig, pick(f0))
    set_flags(next(SUBS[0].self_signatures), pick(f1))
    set_flags(next(SUBS[1].self_signatures), pick(f2))
    added = None
    if rebound:
        Oracle.reset()
        added = KEYP.bind(SUBS[0], usage=set(pick(f1new)) or {KeyFlags.Authentication}, created=T_NEW, crosssign=False) if False else None
        old = next(SUBS[0].self_signatures)
        import copy
        added = copy.copy(old)
        added._signature = copy.copy(old._signature)
        added._signature.subpackets = copy.copy(old._signature.subpackets)
        # a later binding: same issuer, later creation time, its own flags
        from pgpy.packet.subpackets.signature import CreationTime, KeyFlags as KFsp
        import collections
        hs = collections.OrderedDict()
        for key_, sp in old._signature.subpackets._hashed_sp.items():
            if key_[0] == 'CreationTime':
                nsp = CreationTime()
                nsp.created = T_NEW
                nsp.update_hlen()
                hs[key_] = nsp
            elif key_[0] == 'KeyFlags':
                nsp = KFsp()
                nsp.flags = set(pick(f1new))
                nsp.update_hlen()
                hs[key_] = nsp
            else:
                hs[key_] = sp
        added._signature.subpackets._hashed_sp = hs
        added._signature.subpackets._hashed_raw = None
        SUBS[0]._signatures.insort(added)          # (as add_subkey does: the signature's own parent link stays unset)

    def undo():
        if added is not None:
            SUBS[0]._signatures.remove(added)
    eff0 = {KeyFlags.Certify} | set(pick(f0))
    eff1 = set(pick(f1new)) if rebound else set(pick(f1))
    eff2 = set(pick(f2))
    return (eff0, eff1, eff2), undo          # (a tuple: compared with capabilities_now() after the operation)


class Used:
    pk = []


def _enc_sk(self, pk, symalg, symkey):
    Used.pk.append(pk)
    self.ct = F.RSACipherText() if False else None
    self.update_hlen()


def _dec_sk(self, pk):
    Used.pk.append(pk)
    return K.SymmetricKeyAlgorithm.AES128, b'S' * 16


PKESessionKeyV3.encrypt_sk = _enc_sk
PKESessionKeyV3.decrypt_sk = _dec_sk
COMPONENTS = [KEYP] + SUBS


def capabilities_now():
    """the effective capability sets as the library reports them now"""
    return tuple(set(c._get_key_flags()) for c in COMPONENTS)


def first_with(effs, wanted):
    for i, e in enumerate(effs):
        if e & wanted:
            return i
    return None


@ob('O16.1', 'sign / certify / encrypt use the first component (primary, then subkeys) whose most recent self-signature grants the capability, name exactly '
             'that component in the produced packet, and refuse when none has it', 'capability sets of primary and two subkeys chosen by symbolic index from 7 sets each; optionally a later re-binding of subkey 1 with another set; '
             'operation in {sign, certify, encrypt}; all 7^3 (7^4 with the re-binding) assignments, each path concrete and native; afterwards the capabilities the library reports are unchanged', cond_timeout={'q': 280, 't': 1500},
    partitions=[['op == %d' % o, 'not rebound', 'f1new == 0'] for o in range(3)] + [['op == %d' % o, 'rebound', 'f0 %% 2 == %d' % h] for o in range(3) for h in range(2)])
def selects_component(op: int, f0: int, f1: int, f2: int, rebound: bool, f1new: int) -> bool:
    """
    pre: 0 <= op < 3
    pre: 0 <= f0 < 7 and 0 <= f1 < 7 and 0 <= f2 < 7 and 0 <= f1new < 7
    post: _
    """
    op, f0, f1, f2, f1new = conc(op, 3), conc(f0, 7), conc(f1, 7), conc(f2, 7), conc(f1new, 7)
    rebound = True if rebound else False
    with native():                      # every choice is concrete on this path: the key operations run as in production
        return _selects_component(op, f0, f1, f2, rebound, f1new)


def conc(sym, n):
    for k in range(n):
        if sym == k:
            return k
    return 0


def _selects_component(op, f0, f1, f2, rebound, f1new):
    effs, undo = configure(f0, f1, f2, rebound, f1new)
    try:
        Oracle.reset()
        Used.pk = []
        wanted = ({KeyFlags.Sign}, {KeyFlags.Certify}, {KeyFlags.EncryptCommunications, KeyFlags.EncryptStorage})[op]
        idx = first_with(effs, wanted)
        try:
            if op == 0:
                out = KEYP.sign(b'doc', created=T_NEW, hash=HashAlgorithm.SHA256)
            elif op == 1:
                out = KEYP.certify(PUB2.userids[0], created=T_NEW, hash=HashAlgorithm.SHA256)
            else:
                msg = PGPMessage.new(b'x', compression=K.CompressionAlgorithm.Uncompressed)
                Cipher.reset()
                Feed.reset([])
                out = KEYP.pubkey.encrypt(msg, cipher=K.SymmetricKeyAlgorithm.AES128)
        except PGPError:
            return idx is None and capabilities_now() == effs
        if idx is None:
            return False
        # using the key does not change what its components may do (on the key and on its public twin, which shares the signatures)
        if capabilities_now() != effs:
            return False
        comp = COMPONENTS[idx]
        if op in (0, 1):
            return out.signer == comp.fingerprint.keyid and out.signer_fingerprint == comp.fingerprint
        pk = [p for p in out._sessionkeys][0]
        return pk.encrypter == comp.fingerprint.keyid and len(Used.pk) == 1 and Used.pk[0].fingerprint == comp.fingerprint
    finally:
        undo()


@ob('O16.1w', 'with flag enforcement disabled by the caller the operation proceeds (with a warning) using the key itself when no component has the capability',
    'capability sets by symbolic index; sign only', cond_timeout={'q': 200, 't': 600})
def enforcement_off(f0: int, f1: int, f2: int) -> bool:
    """
    pre: 0 <= f0 < 7 and 0 <= f1 < 7 and 0 <= f2 < 7
    post: _
    """
    effs, undo = configure(f0, f1, f2, False, 0)
    KEYP._require_usage_flags = False
    try:
        Oracle.reset()
        idx = first_with(effs, {KeyFlags.Sign})
        out = KEYP.sign(b'doc', created=T_NEW, hash=HashAlgorithm.SHA256)
        comp = COMPONENTS[idx] if idx is not None else COMPONENTS[-1]       # the scan ends on the last component examined
        return out.signer == comp.fingerprint.keyid
    except PGPError:
        return False
    finally:
        KEYP._require_usage_flags = True
        undo()


def build_two_ids():
    k = PGPKey.new(PubKeyAlgorithm.EdDSA, EllipticCurveOID.Ed25519, created=T_OLD)
    k.add_uid(PGPUID.new('Alice Smith', comment='work', email='alice@example.org'), usage={KeyFlags.Certify}, hashes=[HashAlgorithm.SHA256], primary=True, created=T_OLD)
    k.add_uid(PGPUID.new('Alice'), usage={KeyFlags.Certify}, hashes=[HashAlgorithm.SHA256], created=T_OLD)
    s1 = PGPKey.new(PubKeyAlgorithm.EdDSA, EllipticCurveOID.Ed25519, created=T_OLD)
    k.add_subkey(s1, usage={KeyFlags.Authentication}, created=T_OLD)
    return k


KEYU = build_two_ids()
NAMES = ('Alice Smith', 'Alice', 'work', 'alice@example.org')


@ob('O16.5', 'choice of identity: with user=<name> the capability check uses the flags of exactly the identity carrying that name / comment / e-mail - not of another identity that '
             'merely contains the string - and the signature names the component so chosen', 'two identities ("Alice Smith" with comment and e-mail, and "Alice") and one subkey, capability sets by symbolic index from 7 each; '
             'selector over {both names, the comment, the e-mail}', cond_timeout={'q': 280, 't': 900}, partitions=[['ni == %d' % i] for i in range(4)])
def identity_choice(ni: int, fa: int, fb: int, fs: int) -> bool:
    """
    pre: 0 <= ni < 4
    pre: 0 <= fa < 7 and 0 <= fb < 7 and 0 <= fs < 7
    post: _
    """
    ua, ub = KEYU.get_uid('Alice Smith'), None
    for u in KEYU.userids:
        if u.name == 'Alice':
            ub = u
    sub = list(KEYU.subkeys.values())[0]
    set_flags(ua.selfsig, pick(fa))
    set_flags(ub.selfsig, pick(fb))
    set_flags(next(sub.self_signatures), pick(fs))
    name = NAMES[0]
    for k in range(4):
        if ni == k:
            name = NAMES[k]
    named = ub if name == 'Alice' else ua
    eff_primary = {KeyFlags.Certify} | set(pick(fb) if named is ub else pick(fa))
    want = 0 if KeyFlags.Sign in eff_primary else (1 if KeyFlags.Sign in set(pick(fs)) else None)
    Oracle.reset()
    try:
        sig = KEYU.sign(b'doc', user=name, created=T_NEW, hash=HashAlgorithm.SHA256)
    except PGPError:
        return want is None
    if want is None:
        return False
    comp = KEYU if want == 0 else sub
    return sig.signer == comp.fingerprint.keyid


LOCKED = new_key('locked', sub=True)
LOCKED.protect('pw', K.SymmetricKeyAlgorithm.AES128, HashAlgorithm.SHA1)
NOID = PGPKey.new(PubKeyAlgorithm.EdDSA, EllipticCurveOID.Ed25519, created=T_OLD)


@ob('O16.2', 'preconditions: private operations refuse on public and on locked keys and work on unprotected and unlocked ones; public-key encryption refuses on private keys; '
             'a key without an identity refuses everything but its first self-certification',
    'key form in {public, private unprotected, private locked, private unlocked, private without identity} x operation in {sign, certify, revoke, add revoker, decrypt, encrypt, add an identity (self-certification)}',
    cond_timeout={'q': 280, 't': 600})
def precondition_matrix(form: int, op: int) -> bool:
    """
    pre: 0 <= form < 5
    pre: 0 <= op < 7
    post: _
    """
    Oracle.reset()
    Cipher.reset()
    Feed.reset([])
    Used.pk = []
    msg = PGPMessage.new(b'x', compression=K.CompressionAlgorithm.Uncompressed)

    def run(key):
        if op == 0:
            key.sign(b'doc', created=T_NEW)
        elif op == 1:
            key.certify(PUB2.userids[0], created=T_NEW)
        elif op == 2:
            key.revoke(key.userids[0] if len(key.userids) else PUB2.userids[0], created=T_NEW)
        elif op == 3:
            key.revoker(PUB2, created=T_NEW)
        elif op == 4:
            key.decrypt(msg)            # message is not encrypted: allowed forms return it with a warning
        elif op == 5:
            key.encrypt(msg, cipher=K.SymmetricKeyAlgorithm.AES128)
        else:
            key.add_uid(PGPUID.new('first'), usage={KeyFlags.Sign}, hashes=[HashAlgorithm.SHA256], created=T_NEW)
            key.del_uid('first')

    key = (KEY.pubkey, KEY, LOCKED, LOCKED, NOID)[form]
    refused = False
    try:
        if form == 3:
            with LOCKED.unlock('pw'):
                run(LOCKED)
        else:
            run(key)
    except PGPError:
        refused = True
    except AttributeError:
        if form != 4:
            raise
        refused = True                              # (an identity-less key certifying someone else fails on a missing attribute: an error, not a success)
    if form == 4:                                   # no identity: only op 6 (its first self-certification) is allowed
        return refused == (op != 6)
    if op == 5:                                     # public-key encryption: only the public form may do it (KEY has no encryption flag -> refused there too)
        return refused
    if op == 6:
        return refused == (form in (0, 2))
    private_ok = form in (1, 3)
    return refused == (not private_ok)


@ob('O16.4', 'decryption finds the addressed component: a message addressed to subkey j is handed to subkey j\'s key material; one addressed to nobody on the key is refused',
    'recipient key id in {primary, subkey 1, subkey 2, foreign}', cond_timeout={'q': 200, 't': 600})
def decrypt_finds_subkey(r: int) -> bool:
    """
    pre: 0 <= r < 4
    post: _
    """
    ids = [KEYP.fingerprint.keyid, SUBS[0].fingerprint.keyid, SUBS[1].fingerprint.keyid, KEY2.fingerprint.keyid]
    algs = [KEYP.key_algorithm, SUBS[0].key_algorithm, SUBS[1].key_algorithm, KEY2.key_algorithm]
    inner = PGPMessage.new(b'hello', compression=K.CompressionAlgorithm.Uncompressed, format='b')
    from pgpy.packet.packets import IntegrityProtectedSKEDataV1
    Cipher.reset()
    Feed.reset([])
    sed = IntegrityProtectedSKEDataV1()
    sed.encrypt(b'S' * 16, K.SymmetricKeyAlgorithm.AES128, inner.__bytes__())
    pk = PKESessionKeyV3()
    import binascii
    pk.encrypter = bytearray(binascii.unhexlify(ids[r]))
    pk.pkalg = algs[r]
    msg = PGPMessage() | sed
    msg |= pk
    Used.pk = []
    try:
        dec = KEYP.decrypt(msg)
    except PGPError:
        return r == 3
    if r == 3:
        return False
    return bytes(dec.message) == b'hello' and len(Used.pk) == 1 and Used.pk[0].fingerprint == COMPONENTS[r].fingerprint


def _after_raising_scope(op):
    """a protected key whose unlock scope ended by an exception is locked again: private operations refuse"""
    k = LOCKED
    try:
        with k.unlock('pw'):
            raise KeyError('inside the scope')
    except KeyError:
        pass
    if k.is_unlocked or any(sk.is_unlocked for sk in k.subkeys.values()):
        return False
    Oracle.reset()
    try:
        if op == 0:
            k.sign(b'doc', created=T_NEW)
        elif op == 1:
            k.certify(PUB2.userids[0], created=T_NEW)
        else:
            k.revoke(k.userids[0], created=T_NEW)
    except PGPError:
        return True
    return False


@ob('O16.7', 'private operations refuse on a protected key after its unlock scope was left through an exception (the key is locked again), as they do before any unlock',
    'operation in {sign, certify, revoke}; real unlock of a key protected with the real S2K / cipher (Ed25519 primary and subkey); native per path', cond_timeout={'q': 200, 't': 600})
def locked_after_raising_scope(op: int) -> bool:
    """
    pre: 0 <= op < 3
    post: _
    """
    o = conc(op, 3)
    with native():
        return _after_raising_scope(o)


T_LATER = T_NEW + __import__('datetime').timedelta(seconds=50)


def _foreign_cert_case(op, f0, f1, f2, fc, tamper):
    import binascii
    effs, undo = configure(f0, f1, f2, False, 0)
    uid = KEYP.userids[0]
    Oracle.reset()
    cert = KEY2.certify(uid, usage=set(pick(fc)) or {KeyFlags.Authentication}, created=T_LATER, hash=HashAlgorithm.SHA256)
    if tamper:
        # the unhashed issuer key id is not protected by the signature: anyone can overwrite it with the certified key's own id
        cert._signature.subpackets['Issuer'][0].issuer = bytearray(binascii.unhexlify(KEYP.fingerprint.keyid))
    uid |= cert
    try:
        if uid.selfsig is cert:
            return False
        if capabilities_now() != effs:
            return False
        Oracle.reset()
        Used.pk = []
        wanted = ({KeyFlags.Sign}, {KeyFlags.Certify}, {KeyFlags.EncryptCommunications, KeyFlags.EncryptStorage})[op]
        idx = first_with(effs, wanted)
        try:
            if op == 0:
                out = KEYP.sign(b'doc', created=T_LATER, hash=HashAlgorithm.SHA256)
            else:
                msg = PGPMessage.new(b'x', compression=K.CompressionAlgorithm.Uncompressed)
                Cipher.reset()
                Feed.reset([])
                out = KEYP.pubkey.encrypt(msg, cipher=K.SymmetricKeyAlgorithm.AES128)
        except PGPError:
            return idx is None
        if idx is None:
            return False
        comp = COMPONENTS[idx]
        if op == 0:
            return out.signer == comp.fingerprint.keyid
        return [p for p in out._sessionkeys][0].encrypter == comp.fingerprint.keyid
    finally:
        uid._signatures.remove(cert)
        undo()


@ob('O16.6', 'a certification by ANOTHER key never decides what a key may do - even a later one that carries key flags, and even when its (unprotected, unhashed) issuer key id '
             'has been overwritten with the certified key\'s own id: the capabilities are those of the most recent SELF-signature',
    'operation in {sign, encrypt}; own capability sets by symbolic index (7 x 7 x 7), flags on the foreign certification (7), issuer id tampered or not; each path concrete and native',
    cond_timeout={'q': 280, 't': 900}, partitions=[['op == %d' % o, 'tamper' if t else 'not tamper', 'f0 %% 2 == %d' % h] for o in (0, 2) for t in (True, False) for h in range(2)])
def foreign_certification_ignored(op: int, f0: int, f1: int, f2: int, fc: int, tamper: bool) -> bool:
    """
    pre: op in (0, 2)
    pre: 0 <= f0 < 7 and 0 <= f1 < 7 and 0 <= f2 < 7 and 0 <= fc < 7
    post: _
    """
    op, f0, f1, f2, fc = conc(op, 3), conc(f0, 7), conc(f1, 7), conc(f2, 7), conc(fc, 7)
    tamper = True if tamper else False
    with native():
        return _foreign_cert_case(op, f0, f1, f2, fc, tamper)


SANITY = ['locked_after_raising_scope(%d)' % o for o in range(3)] + ['foreign_certification_ignored(0, 1, 5, 5, 4, True)', 'foreign_certification_ignored(2, 1, 3, 5, 4, True)', 'foreign_certification_ignored(0, 1, 5, 5, 2, False)', 'foreign_certification_ignored(2, 0, 0, 3, 3, True)'] + ['selects_component(0, 2, 0, 0, False, 0)', 'selects_component(0, 1, 2, 0, False, 0)', 'selects_component(0, 1, 5, 2, False, 0)', 'selects_component(0, 1, 5, 5, False, 0)',
          'selects_component(1, 0, 0, 0, False, 0)', 'selects_component(2, 1, 0, 3, False, 0)', 'selects_component(2, 1, 2, 5, False, 0)', 'selects_component(0, 1, 5, 0, True, 2)',
          'selects_component(0, 1, 2, 0, True, 5)', 'identity_choice(1, 2, 1, 0)', 'identity_choice(0, 2, 1, 0)', 'identity_choice(1, 1, 2, 2)', 'identity_choice(3, 0, 2, 5)', 'identity_choice(2, 4, 0, 0)', 'enforcement_off(1, 5, 5)', 'enforcement_off(1, 2, 0)'] + ['precondition_matrix(%d, %d)' % (f, o) for f in range(5) for o in range(7)] + \
         ['decrypt_finds_subkey(%d)' % r for r in range(4)]
