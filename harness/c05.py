"""C05 - the hashed subpacket area is verified verbatim, exactly as received (DESIGN.md 3/C05).

A v4 signature packet is assembled as octets from symbolic parts, parsed by the real Packet() dispatch, and
the octets PGPSignature.hashdata feeds to the hash are compared with the received region."""
import warnings

from vlib.h import ob, excl
from pgpy import PGPSignature
from pgpy.errors import PGPError
from pgpy.packet import Packet
from pgpy.packet.subpackets.types import Signature as SigSP
from pgpy.types import MetaDispatchable

warnings.simplefilter('ignore')

FUNCTIONS_ENCODED = ['pgpy.pgp.PGPKey._get_key_flags', 'pgpy.decorators.KeyAction.usage', 'pgpy.packet.fields.SubPackets.__copy__', 'pgpy.types.MetaDispatchable.__call__', 'pgpy.packet.types.Header.parse', 'pgpy.packet.packets.SignatureV4.parse',
                     'pgpy.packet.fields.SubPackets.parse', 'pgpy.packet.fields.SubPackets.__hashbytearray__',
                     'pgpy.packet.fields.SubPackets._serialize_hashed', 'pgpy.packet.subpackets.types.Header.parse',
                     'pgpy.packet.subpackets.types.Header.__bytearray__', 'pgpy.pgp.PGPSignature.hashdata',
                     'pgpy.packet.subpackets.signature.*.parse / __bytearray__ / value setters (every registered handler class)',
                     'pgpy.packet.fields.RSASignature.parse']
STUBS = []
OUTSIDE = ['bodies longer than the stated bounds (a few symbolic octets; 2-octet length form exercised with 190 concrete filler octets)',
           'time-valued subpackets (types 2, 3, 9): each octet ranges over {00,7F,80,FF} only (datetime is C code)',
           'malformed fixed-size subpackets (e.g. an Issuer subpacket whose length is not 9): PGPy slices fixed sizes and is not claimed here',
           'EmbeddedSignature (type 32) content is a fixed inner signature with symbolic hash2 only',
           'v3 signatures']
ASSUMPTIONS = ['the received region is  04 type pk hash len2 hashed-subpackets  (RFC 4880 5.2.4)']

HANDLERS = {k[1]: v.__name__ for k, v in MetaDispatchable._registry.items() if k[0] is SigSP and isinstance(k[1], int) and len(k) == 2}
FILL = bytes((i * 7 + 3) % 251 for i in range(190))


def enc_len(v, lform):
    if lform == 1:
        return bytes([v])
    if lform == 2:
        m = v - 192
        return bytes([m // 256 + 192, m % 256])
    return bytes([255, 0, 0, v // 256, v % 256])


def build(hashed, sigtype=0, pk=1, halg=8):
    """received v4 signature packet octets around a given hashed area"""
    unh = bytes([9, 16, 1, 2, 3, 4, 5, 6, 7, 8])                  # unhashed Issuer
    body = bytearray([4, sigtype, pk, halg, len(hashed) // 256, len(hashed) % 256]) + hashed
    region = bytes(body)
    body += bytearray([0, len(unh)]) + unh + b'\xAB\xCD' + b'\x00\x09\x01\xFF'     # hash2, one MPI (RSA)
    if pk not in (1, 2, 3):
        body += b'\x00\x09\x01\xFE'                                               # DSA/ECDSA/EdDSA carry two; unknown ids keep the rest opaque
    blen = len(body)
    hdr = bytes([0xC2, blen]) if blen < 192 else bytes([0xC2, (blen - 192) // 256 + 192, (blen - 192) % 256])
    return bytearray(hdr) + body, region


def fed(p):
    """the octets hashdata() appends for the signature packet itself (pgp.py: version, type, algorithms, hashed area)"""
    s = PGPSignature()
    s._signature = p
    return bytes([p.header.version, int(s.type), int(s.key_algorithm), int(s.hash_algorithm)]) + bytes(p.subpackets.__hashbytearray__())


def check_region(pkt, region):
    try:
        p = Packet(pkt)
    except Exception:               # rejected input: the property speaks about accepted packets only
        return True
    if len(pkt) != 0 and type(p).__name__ == 'SignatureV4' and type(p.signature).__name__ != 'OpaqueSignature':
        return False                # (signatures of non-signing algorithm ids keep their integers opaque and do not consume: C08's subject)
    s = PGPSignature()
    s._signature = p
    n = len(region)
    if type(p).__name__ != 'SignatureV4':
        return True
    if fed(p) != region:
        return False
    import copy as _copy
    if fed(_copy.copy(p)) != region:            # a copied signature (key copies, pubkey derivation, message copies) hashes the same octets
        return False
    if int(p.sigtype) in (0, 2, 0x40, 0x50):
        got = s.hashdata(b'D')
        lead = b'D' if int(p.sigtype) == 0 else b''
        want = lead + region + bytes([4, 255, 0, 0, n // 256, n % 256])
        return bytes(got) == want
    return True


def one_subpacket(tid, crit, lform, body):
    """hashed area: [subpacket under test][opaque type 100 with one octet]"""
    n = len(body) + 1
    sp = bytearray(enc_len(n, lform)) + bytearray([tid + (128 if crit else 0)]) + body
    hashed = sp + bytearray([2, 100, 0x5A])
    pkt, region = build(hashed)
    return check_region(pkt, region)


def var_body(n, b0, b1, b2, b3, lform):
    body = bytearray()
    for i, b in enumerate((b0, b1, b2, b3)):
        if i < n:
            body.append(b)
    if lform == 2:
        body += FILL
    return body


OPAQUE_IDS = [i for i in range(128) if i not in HANDLERS]
VAR_TEXT = [6, 24, 26, 28]                 # regex, preferred key server, policy URI, signer's user id
FLAGLISTS = [11, 21, 22]
BYTEFLAGS = [23, 27, 30]
BOOLS = [4, 7, 25]


@ob('O5.1-opaque', 'unknown subpacket types: region hashed verbatim for every type id without a handler, critical bit, '
                   'length form 1/2/5 and body', 'type id over all %d unhandled ids (symbolic), critical bit, length form 1/2/5, body 0..2 (quick) / 0..4 (thorough) symbolic octets' % len(OPAQUE_IDS),
    cond_timeout={'q': 300, 't': 900},
    partitions={'q': [['n <= 2', '%d <= tid < %d' % (lo, hi)] for lo, hi in ((0, 48), (48, 75), (75, 102), (102, 128))],
                't': [['lform == %d' % f, '%d <= tid < %d' % (lo, hi)] for f in (1, 2, 5) for lo, hi in ((0, 48), (48, 75), (75, 102), (102, 128))]})
def sp_opaque(tid: int, crit: bool, lform: int, n: int, b0: int, b1: int, b2: int, b3: int) -> bool:
    """
    pre: 0 <= tid < 128 and tid not in HANDLERS
    pre: lform in (1, 2, 5)
    pre: 0 <= n <= 4
    pre: 0 <= b0 < 256 and 0 <= b1 < 256 and 0 <= b2 < 256 and 0 <= b3 < 256
    post: _
    """
    return one_subpacket(tid, crit, lform, var_body(n, b0, b1, b2, b3, lform))


@ob('O5.1-text', 'text subpackets (regex, key server, policy URI, signer id): arbitrary octets incl. >= 0x80 hashed verbatim',
    'type in {6,24,26,28}, critical bit, length form 1/2/5, body 0..3 symbolic octets over all 256 values',
    cond_timeout={'q': 200, 't': 900}, partitions=[['tid == %d' % t] for t in VAR_TEXT])
def sp_text(tid: int, crit: bool, lform: int, n: int, b0: int, b1: int, b2: int) -> bool:
    """
    pre: tid in (6, 24, 26, 28)
    pre: lform in (1, 2, 5)
    pre: 0 <= n <= 3
    pre: 0 <= b0 < 256 and 0 <= b1 < 256 and 0 <= b2 < 256
    post: _
    """
    return one_subpacket(tid, crit, lform, var_body(n, b0, b1, b2, 0, lform))


@ob('O5.1-flags', 'flag-octet subpackets (key flags, features, key server preferences): every value of every flag octet, 1..3 octets',
    'types 23 and 30: 1..3 symbolic octets over all 256 values; type 27 (key flags, 7 known bits = 128 paths per octet): one fully symbolic '
    'octet (quick), two octets with the first split 32 ways (thorough); critical bit, length form 1/5',
    cond_timeout={'q': 300, 't': 1200},
    partitions={'q': [['tid == 23'], ['tid == 30'], ['tid == 27', 'n == 1']],
                't': [['tid == 23'], ['tid == 30'], ['tid == 27', 'n == 1']] + [['tid == 27', 'n == 2', 'b0 % 32 == ' + str(k), 'lform == %d' % f] for k in range(32) for f in (1, 5)]})
def sp_flags(tid: int, crit: bool, lform: int, n: int, b0: int, b1: int, b2: int) -> bool:
    """
    pre: tid in (23, 27, 30)
    pre: lform in (1, 5)
    pre: 1 <= n <= 3
    pre: 0 <= b0 < 256 and 0 <= b1 < 256 and 0 <= b2 < 256
    post: _
    """
    return one_subpacket(tid, crit, lform, var_body(n, b0, b1, b2, 0, lform))


@ob('O5.1-bool', 'boolean subpackets (exportable, revocable, primary user id): octet 0 / 1 / any other value',
    'type in {4,7,25}, critical bit, length form 1/5, one symbolic octet over all 256 values', cond_timeout={'q': 200, 't': 600})
def sp_bool(tid: int, crit: bool, lform: int, b0: int) -> bool:
    """
    pre: tid in (4, 7, 25)
    pre: lform in (1, 5)
    pre: 0 <= b0 < 256
    post: _
    """
    return one_subpacket(tid, crit, lform, bytearray([b0]))


@ob('O5.1-prefs', 'preference lists (symmetric, hash, compression): any list of 0..3 algorithm octets (unknown ids may be rejected)',
    'type in {11,21,22}, critical bit, length form 1/5, 0..1 (quick) / 0..2 (thorough) symbolic octets', cond_timeout={'q': 300, 't': 1200},
    partitions={'q': [['tid == %d' % t, 'n <= 1'] for t in FLAGLISTS], 't': [['tid == %d' % t, 'n <= 2', 'lform == %d' % f] for t in FLAGLISTS for f in (1, 5)]})
def sp_prefs(tid: int, crit: bool, lform: int, n: int, b0: int, b1: int, b2: int) -> bool:
    """
    pre: tid in (11, 21, 22)
    pre: lform in (1, 5)
    pre: 0 <= n <= 3
    pre: 0 <= b0 < 256 and 0 <= b1 < 256 and 0 <= b2 < 256
    post: _
    """
    return one_subpacket(tid, crit, lform, var_body(n, b0, b1, b2, 0, lform))


@ob('O5.1-trust', 'trust signature (level, amount) and reason for revocation (code + text)',
    'type 5: two symbolic octets; type 29: code octet + 0..2 text octets; critical bit, length form 1/5',
    cond_timeout={'q': 300, 't': 900}, partitions={'q': [['tid == 5']] + [['tid == 29', 'n <= 2', 'b0 // 64 == %d' % k] for k in range(4)],
                't': [['tid == 5']] + [['tid == 29', 'lform == %d' % f, 'b0 // 64 == %d' % k] for f in (1, 5) for k in range(4)]})
def sp_trust_reason(tid: int, crit: bool, lform: int, n: int, b0: int, b1: int, b2: int) -> bool:
    """
    pre: tid in (5, 29)
    pre: lform in (1, 5)
    pre: (tid == 5 and n == 2) or (tid == 29 and 1 <= n <= 3)
    pre: 0 <= b0 < 256 and 0 <= b1 < 256 and 0 <= b2 < 256
    post: _
    """
    return one_subpacket(tid, crit, lform, var_body(n, b0, b1, b2, 0, lform))


TVALS = (0x00, 0x7F, 0x80, 0xFF)


@ob('O5.1-time', 'time-valued subpackets (creation, signature expiry, key expiry)',
    'type in {2,3,9}, critical bit, length form 1/5, four octets each from {00,7F,80,FF} (datetime is C code: stated restriction)',
    cond_timeout={'q': 300, 't': 900},
    partitions={'q': [['tid == 2', 'i0 != 1 and i1 != 1 and i2 != 1 and i3 != 1']] + [['tid == %d' % t, 'lform == %d' % f] for t in (3, 9) for f in (1, 5)],
                't': [['tid == 2', 'i0 == %d' % k] for k in range(4)] + [['tid == %d' % t, 'lform == %d' % f] for t in (3, 9) for f in (1, 5)]})
def sp_time(tid: int, crit: bool, lform: int, i0: int, i1: int, i2: int, i3: int) -> bool:
    """
    pre: tid in (2, 3, 9)
    pre: lform in (1, 5)
    pre: 0 <= i0 < 4 and 0 <= i1 < 4 and 0 <= i2 < 4 and 0 <= i3 < 4
    post: _
    """
    octs = [0, 0, 0, 0]
    for j, idx in enumerate((i0, i1, i2, i3)):          # concrete octet per path: symbolic durations/dates end up in float and C code
        for k in range(4):
            if idx == k:
                octs[j] = TVALS[k]
    return one_subpacket(tid, crit, lform, bytearray(octs))


@ob('O5.1-issuer', 'issuer key id (8 octets) hashed verbatim', 'critical bit, length form 1/5, 8 symbolic octets',
    cond_timeout={'q': 300, 't': 900}, flags=('lazyhex',))
def sp_issuer(crit: bool, lform: int, b0: int, b1: int, b2: int, b3: int, b4: int, b5: int, b6: int, b7: int) -> bool:
    """
    pre: lform in (1, 5)
    pre: 0 <= b0 < 256 and 0 <= b1 < 256 and 0 <= b2 < 256 and 0 <= b3 < 256
    pre: 0 <= b4 < 256 and 0 <= b5 < 256 and 0 <= b6 < 256 and 0 <= b7 < 256
    post: _
    """
    return one_subpacket(16, crit, lform, bytearray([b0, b1, b2, b3, b4, b5, b6, b7]))


FPR = bytes(range(0xA0, 0xB4))


@ob('O5.1-fpr', 'fingerprint-carrying subpackets: revocation key (class, algorithm, fingerprint), issuer fingerprint, intended recipient',
    'type 12: symbolic class octet, algorithm octet and first fingerprint octet (16 nibble-boundary values; hex formatting is C code); '
    'types 33/35: version 4 and the same fingerprint octet; remaining fingerprint octets concrete', cond_timeout={'q': 300, 't': 900},
    partitions={'q': [['tid == 12', 'f0 < 4', 'b1 // 32 == %d' % k, 'lform == %d' % f] for k in range(8) for f in (1, 5)] + [['tid == 33'], ['tid == 35']],
                't': [['tid == 12', 'b1 // 32 == %d' % k] for k in range(8)] + [['tid == 33'], ['tid == 35']]})
def sp_fpr(tid: int, crit: bool, lform: int, b0: int, b1: int, f0: int, f1: int) -> bool:
    """
    pre: tid in (12, 33, 35)
    pre: lform in (1, 5)
    pre: 0 <= b0 < 256 and 0 <= b1 < 256 and 0 <= f0 < 16 and f1 == 0xA1
    pre: tid == 12 or (b0 == 4 and b1 == 0)
    post: _
    """
    f0 = (0x00, 0x09, 0x0A, 0x0F, 0x10, 0x7F, 0x80, 0x99, 0x9A, 0xA0, 0xAF, 0xF0, 0xF9, 0xFA, 0xFE, 0xFF)[f0]
    if tid == 12:
        body = bytearray([b0, b1, f0, f1]) + FPR[2:]
    else:
        body = bytearray([b0, f0, f1]) + FPR[2:]
    return one_subpacket(tid, crit, lform, body)


@ob('O5.1-notation', 'notation data: four flag octets, name and value lengths, name, value',
    'four symbolic flag octets, name length 0..2, value length 0..2, symbolic name/value octets; critical bit, length form 1/5',
    cond_timeout={'q': 300, 't': 900}, partitions=[['nl == %d' % a, 'vl == %d' % b, 'lform == %d' % f] + ([] if a + b < 4 else [c]) for a in range(3) for b in range(3) for f in (1, 5) for c in (('crit', 'not crit') if a + b == 4 else ('',))])
def sp_notation(crit: bool, lform: int, g0: int, g1: int, g2: int, g3: int, nl: int, vl: int, c0: int, c1: int, c2: int, c3: int) -> bool:
    """
    pre: lform in (1, 5)
    pre: 0 <= g0 < 256 and 0 <= g1 < 256 and 0 <= g2 < 256 and 0 <= g3 < 256
    pre: 0 <= nl <= 2 and 0 <= vl <= 2
    pre: 0 <= c0 < 256 and 0 <= c1 < 256 and 0 <= c2 < 256 and 0 <= c3 < 256
    post: _
    """
    body = bytearray([g0, g1, g2, g3, 0, nl, 0, vl])
    cs = (c0, c1, c2, c3)
    for i in range(4):
        if i < nl + vl:
            body.append(cs[i])
    return one_subpacket(20, crit, lform, body)


@ob('O5.1-attest', 'attested certifications (opaque digest list) and embedded signature',
    'type 37: 0..3 symbolic octets; type 32: fixed inner v4 signature with symbolic hash2 octets', cond_timeout={'q': 300, 't': 900},
    partitions=[['tid == 37'], ['tid == 32']])
def sp_attest_embedded(tid: int, crit: bool, lform: int, n: int, b0: int, b1: int, b2: int) -> bool:
    """
    pre: tid in (32, 37)
    pre: lform in (1, 5)
    pre: 0 <= n <= 3
    pre: tid == 37 or n == 0
    pre: 0 <= b0 < 256 and 0 <= b1 < 256 and 0 <= b2 < 256
    post: _
    """
    if tid == 37:
        body = var_body(n, b0, b1, b2, 0, lform)
    else:
        body = bytearray([4, 0x19, 1, 8, 0, 0, 0, 0, b0, b1, 0, 9, 1, 0x7F])
    return one_subpacket(tid, crit, lform, body)


@ob('O5.2a', 'several subpackets in any order: region hashed verbatim',
    'two symbolic subpackets drawn from {key-server flags(23), bool(4), opaque(101), text(26)} in symbolic order, symbolic one-octet bodies, critical bit',
    cond_timeout={'q': 300, 't': 900}, partitions=[['k0 == %d' % i] for i in range(4)])
def multi_order(k0: int, k1: int, v0: int, v1: int, crit0: bool) -> bool:
    """
    pre: 0 <= k0 < 4 and 0 <= k1 < 4
    pre: 0 <= v0 < 256 and 0 <= v1 < 256
    post: _
    """
    ids = (23, 4, 101, 26)
    hashed = bytearray([2, ids[k0] + (128 if crit0 else 0), v0, 2, ids[k1], v1])
    pkt, region = build(hashed)
    return check_region(pkt, region)


@ob('O5.2b', 'the signature-type octet of the region is fed as received (unknown types are rejected)',
    'signature type octet over all 256 values, one symbolic flags octet', cond_timeout={'q': 300, 't': 900})
def header_sigtype(v0: int, sigtype: int) -> bool:
    """
    pre: 0 <= v0 < 256
    pre: 0 <= sigtype < 256
    post: _
    """
    pkt, region = build(bytearray([2, 23, v0]), sigtype=sigtype)
    return check_region(pkt, region)


@ob('O5.2c', 'the hash-algorithm octet of the region is fed as received (unknown ids are kept as integers)',
    'hash algorithm octet over all 256 values, one symbolic flags octet', cond_timeout={'q': 300, 't': 900})
def header_halg(v0: int, halg: int) -> bool:
    """
    pre: 0 <= v0 < 256
    pre: 0 <= halg < 256
    post: _
    """
    pkt, region = build(bytearray([2, 23, v0]), halg=halg)
    return check_region(pkt, region)


@ob('O5.2d', 'the public-key-algorithm octet of the region is fed as received (unknown ids are rejected)',
    'public-key algorithm octet over all 256 values, one symbolic flags octet', cond_timeout={'q': 300, 't': 900})
def header_pkalg(v0: int, pk: int) -> bool:
    """
    pre: 0 <= v0 < 256
    pre: 0 <= pk < 256
    post: _
    """
    for k in range(256):                      # concrete octet per path (the packet layout depends on it)
        if pk == k:
            pkt, region = build(bytearray([2, 23, v0]), pk=k)
            return check_region(pkt, region)
    return True


@ob('O5.3', 'a single-bit change inside the received region changes the octets fed to the hash',
    'region with one flags subpacket and one opaque subpacket; symbolic octet position in the region and symbolic bit; for the two length octets the quick tier restricts the two body octets to multiples of 64', cond_timeout={'q': 300, 't': 900},
    partitions={'q': [['pos < 4'], ['pos == 4'], ['pos == 5'], ['pos == 6', 'v0 % 64 == 0 and v1 % 64 == 0'], ['pos == 7', 'v0 % 64 == 0 and v1 % 64 == 0'], ['pos >= 8']],
                't': [['pos < 4'], ['pos == 4'], ['pos == 5'], ['pos >= 8']] + [['pos == %d' % q, 'bit // 2 == %d' % k] for q in (6, 7) for k in range(4)]})
def bit_flip(pos: int, bit: int, v0: int, v1: int) -> bool:
    """
    pre: 0 <= pos < 12
    pre: 0 <= bit < 8
    pre: 0 <= v0 < 256 and 0 <= v1 < 256
    post: _
    """
    hashed = bytearray([2, 23, v0, 2, 101, v1])
    pkt, region = build(hashed)
    pkt2 = bytearray(pkt)
    pw = (1, 2, 4, 8, 16, 32, 64, 128)[bit]
    for k in range(12):                    # concrete index per path (a symbolic store index would fork every later read)
        if pos == k:
            old = pkt2[2 + k]              # region starts right after the 2-octet packet header
            pkt2[2 + k] = old - pw if (old // pw) % 2 else old + pw
    try:
        p1 = Packet(pkt)
    except Exception:
        return False                       # the unmodified packet is well-formed and must be accepted
    try:
        p2 = Packet(pkt2)
    except Exception:
        return True                        # rejected: cannot verify
    if type(p2).__name__ != 'SignatureV4':
        return True                        # no longer a v4 signature (opaque packet): nothing verifies
    return fed(p1) != fed(p2)


# ------------------------------------------------------------------------------------ O5.4 using a key does not touch what it received
from vlib.h import native
from harness import sigfix as _sf
from harness.c08 import split_one as _split_one

_sf.install_oracle()
_K5 = _sf.new_key('five', sub=True)
_K5PUBBYTES = bytes(_K5.__bytearray__())


def _key_with_flag_octet(f):
    """the fixture key as octets with the key-flags octet of the identity's self-certification set to f (any value another producer might write)"""
    data = bytearray(_K5PUBBYTES)
    i = 0
    n = 0
    while i < len(data):
        tag, hl, bl = _split_one(bytes(data[i:]))
        if tag == 2 and data[i + hl + 1] == 0x13:
            j = bytes(data[i:i + hl + bl]).find(bytes([2, 27]))
            data[i + j + 2] = f
            n += 1
        i += hl + bl
    assert n == 1
    return bytes(data)


def _regions(key):
    out = []
    for sig in list(key.userids[0]._signatures) + [s for sk in key.subkeys.values() for s in sk._signatures]:
        if hasattr(sig._signature.header, 'version') and not sig.embedded:
            out.append(bytes(fed(sig._signature)))
    return sorted(out)


def _received_regions(blob):
    """the regions as they stand in the octets (independent of PGPy's objects): version .. end of the hashed area of every signature packet"""
    out = []
    i = 0
    while i < len(blob):
        tag, hl, bl = _split_one(blob[i:])
        if tag == 2:
            body = blob[i + hl:i + hl + bl]
            out.append(bytes(body[:6 + body[4] * 256 + body[5]]))
        i += hl + bl
    return sorted(out)


def _use_case(f, op):
    from pgpy import PGPKey, PGPMessage
    import pgpy.constants as _K
    blob = _key_with_flag_octet(f)
    key, _ = PGPKey.from_blob(blob)
    received = _received_regions(blob)
    before = _regions(key)
    if before != received:
        return False
    _sf.Oracle.reset()
    try:
        if op == 0:
            key.sign(b'doc')
        elif op == 1:
            key.certify(key.userids[0])
        elif op == 2:
            key.pubkey.encrypt(PGPMessage.new(b'x', compression=_K.CompressionAlgorithm.Uncompressed))
        else:
            key._get_key_flags()
    except Exception:
        pass                                                  # refusing is fine: what matters is what the attempt left behind
    return _regions(key) == received and _regions(key.pubkey) == received and bytes(key.__bytearray__()) == blob


@ob('O5.4', 'using a key (signing, certifying, encrypting to it, or only asking for its capabilities) leaves every signature it carries hashing exactly the octets received, '
            'on the key, on its public twin and in its export - whatever the key-flags octet of the self-certification is (e.g. without the certify bit)',
    'key-flags octet over all 256 values x operation in {sign, certify, encrypt, capability query}; each path concrete and native (oracle primitive)', cond_timeout={'q': 280, 't': 900},
    partitions=[['f // 64 == %d' % q] for q in range(4)])
def use_leaves_received_octets(f: int, op: int) -> bool:
    """
    pre: 0 <= f < 256
    pre: 0 <= op < 4
    post: _
    """
    base = 0
    for q in range(4):
        if f // 64 == q:
            base = 64 * q
    ff = base
    for k in range(64):
        if f == base + k:
            ff = base + k
    o = 0
    for k in range(4):
        if op == k:
            o = k
    with native():
        return _use_case(ff, o)


SANITY = ['use_leaves_received_octets(2, 0)', 'use_leaves_received_octets(3, 2)', 'use_leaves_received_octets(0x8C, 1)', 'use_leaves_received_octets(0, 3)'] + ['sp_opaque(100, False, 1, 2, 1, 2, 0, 0)', 'sp_opaque(0, True, 5, 0, 0, 0, 0, 0)', 'sp_opaque(127, False, 2, 4, 9, 8, 7, 6)',
          'sp_text(26, False, 1, 3, 0x68, 0xC3, 0xA9)', 'sp_text(6, True, 5, 1, 0xFF, 0, 0)', 'sp_text(28, False, 2, 2, 0x80, 0x41, 0)',
          'sp_flags(27, False, 1, 1, 0xC3, 0, 0)', 'sp_flags(27, False, 1, 3, 0, 0, 2)', 'sp_flags(30, True, 5, 2, 0xFF, 0xFF, 0)',
          'sp_bool(4, False, 1, 1)', 'sp_bool(4, False, 1, 0)', 'sp_bool(7, True, 5, 2)', 'sp_bool(25, False, 1, 255)',
          'sp_prefs(11, False, 1, 3, 9, 8, 7)', 'sp_prefs(21, False, 5, 2, 8, 2, 0)', 'sp_prefs(22, False, 1, 1, 200, 0, 0)',
          'sp_trust_reason(5, False, 1, 2, 1, 120, 0)', 'sp_trust_reason(29, False, 1, 3, 2, 0xE9, 0x41)',
          'sp_time(2, False, 1, 0, 1, 2, 3)', 'sp_time(3, True, 5, 3, 3, 3, 3)', 'sp_time(9, False, 1, 0, 0, 0, 0)',
          'sp_issuer(False, 1, 0, 255, 16, 10, 0xAB, 0xCD, 0xEF, 1)', 'sp_fpr(12, False, 1, 0x80, 1, 0, 0xA1)', 'sp_fpr(12, False, 1, 0xC1, 17, 5, 0xA1)',
          'sp_fpr(33, False, 1, 4, 0, 1, 0xA1)', 'sp_fpr(35, True, 5, 4, 0, 15, 0xA1)',
          'sp_notation(False, 1, 0x80, 0, 0, 0, 1, 1, 0x61, 0x62, 0, 0)', 'sp_notation(False, 1, 0x81, 1, 2, 3, 2, 2, 0xE9, 0x62, 0xFF, 0)',
          'sp_notation(True, 5, 0, 0, 0, 0, 0, 2, 1, 2, 0, 0)', 'sp_attest_embedded(37, False, 1, 3, 1, 2, 3)',
          'sp_attest_embedded(32, False, 1, 0, 0xAA, 0xBB, 0x7F)', 'multi_order(0, 1, 0xC3, 2, True)', 'multi_order(3, 2, 0xE9, 0, False)',
          'header_sigtype(0xC3, 0x13)', 'header_pkalg(1, 1)', 'header_pkalg(1, 3)', 'header_pkalg(1, 2)', 'header_pkalg(0x80, 22)', 'header_pkalg(1, 17)', 'header_pkalg(1, 99)', 'header_halg(1, 99)', 'header_sigtype(1, 0x18)', 'header_halg(1, 2)', 'bit_flip(0, 0, 3, 4)', 'bit_flip(8, 7, 3, 4)', 'bit_flip(11, 3, 0, 0)', 'bit_flip(5, 1, 1, 1)']
