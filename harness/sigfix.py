"""Shared fixtures for the signature harnesses (C01, C02, C11): real Ed25519 keys, a signature oracle in place of the
primitive, and stand-ins for keys whose public packet body is a symbolic octet string."""
import warnings
from datetime import datetime, timezone

from pgpy import PGPKey, PGPUID, PGPSignature
from pgpy.constants import (PubKeyAlgorithm, EllipticCurveOID, KeyFlags, HashAlgorithm, SignatureType, SymmetricKeyAlgorithm,
                            CompressionAlgorithm)
from pgpy.types import Fingerprint
import pgpy.packet.fields as F

warnings.simplefilter('ignore')

T0 = datetime.fromtimestamp(1_600_000_000, timezone.utc)
T0_INT = 1_600_000_000


def new_key(uid='a', sub=True):
    k = PGPKey.new(PubKeyAlgorithm.EdDSA, EllipticCurveOID.Ed25519, created=T0)
    k.add_uid(PGPUID.new(uid), usage={KeyFlags.Sign, KeyFlags.Certify}, hashes=[HashAlgorithm.SHA256],
              ciphers=[SymmetricKeyAlgorithm.AES256], compression=[CompressionAlgorithm.Uncompressed], created=T0)
    if sub:
        s = PGPKey.new(PubKeyAlgorithm.EdDSA, EllipticCurveOID.Ed25519, created=T0)
        k.add_subkey(s, usage={KeyFlags.Sign}, created=T0)
    return k


class Oracle:
    """ideal signature functionality: a signature verifies iff exactly these octets were signed and the token matches"""
    signed = None
    token = None
    log = []
    multi = False
    pairs = []

    @staticmethod
    def reset():
        Oracle.signed = None
        Oracle.token = None
        Oracle.log = []


_REAL_SIGN = F.EdDSAPriv.sign
_REAL_VERIFY = F.EdDSAPub.verify


def _sign(self, sigdata, hash_alg):
    Oracle.log.append(bytes(sigdata))
    Oracle.signed = bytes(sigdata)
    if Oracle.multi:
        # history mode: every signature gets its own integers; verification looks the (octets, integers) pair up
        n = len(Oracle.pairs) + 1
        tok = bytes([0x40 + n // 256, n % 256]) + bytes(30) + bytes([0x41]) + bytes(31)
        Oracle.pairs.append((bytes(sigdata), tok))
        return tok
    tok = Oracle.token if Oracle.token is not None else b'\x11' * 64
    return tok


def _verify(self, subj, sigbytes, hash_alg):
    if Oracle.multi:
        return (bytes(subj), bytes(sigbytes)) in Oracle.pairs
    if Oracle.signed is None:
        return False
    ok = bytes(subj) == Oracle.signed
    if Oracle.token is not None:
        ok = ok and bytes(sigbytes) == bytes(Oracle.token)
    return ok


def install_oracle():
    F.EdDSAPriv.sign = _sign
    F.EdDSAPub.verify = _verify


def remove_oracle():
    F.EdDSAPriv.sign = _REAL_SIGN
    F.EdDSAPub.verify = _REAL_VERIFY


KEY = new_key('a')
PUB = KEY.pubkey
KEY2 = new_key('b', sub=False)
PUB2 = KEY2.pubkey
SUBID = list(KEY.subkeys)[0]


def mk_sig(sigtype, signer=None, halg=HashAlgorithm.SHA256, pkalg=PubKeyAlgorithm.EdDSA, token=b'\x01\x02'):
    sig = PGPSignature.new(sigtype, pkalg, halg, signer or KEY.fingerprint.keyid, created=T0)
    sig._signature.signature.from_signer(token if len(token) == 64 else (token * 64)[:64])
    return sig


class FakePrimary(PGPKey):
    """a primary key whose exported public packet body is the (possibly symbolic) octet string `body`"""

    def __init__(self, body, fpr='0123456789ABCDEF0123456789ABCDEF01234567'):
        super().__init__()
        self._body = body
        self._fpr = Fingerprint(fpr)
        self._key = object()
        self._fsubs = {}

    hashdata = property(lambda s: bytearray(s._body))
    is_primary = property(lambda s: True)
    fingerprint = property(lambda s: s._fpr)
    subkeys = property(lambda s: s._fsubs)
    parent = property(lambda s: None)


class FakeSub(FakePrimary):
    def __init__(self, body, parent, fpr='89ABCDEF0123456789ABCDEF0123456789ABCDEF'):
        super().__init__(body, fpr)
        self._fparent = parent
        parent._fsubs[self._fpr.keyid] = self

    is_primary = property(lambda s: False)
    parent = property(lambda s: s._fparent)
    _parent = property(lambda s: s._fparent, lambda s, v: None)
