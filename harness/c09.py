"""C09 - primitive wire codecs are exact over their whole domain (DESIGN.md 3/C09).

Engine B: the real Header / subpacket Header / MPI / String2Key code executed symbolically.
"""
from vlib.h import ob, excl
from pgpy.types import Header as BaseHeader
from pgpy.packet.types import Header, MPI
from pgpy.packet.subpackets.types import Header as SPHeader
from pgpy.packet.fields import String2Key
from pgpy.constants import String2KeyType

FUNCTIONS_ENCODED = ['pgpy.packet.packets.PubKeyV4.created / LiteralData.mtime / CreationTime.created (time codecs)', 'pgpy.packet.packets.SignatureV4.update_hlen', 'pgpy.packet.fields.SubPackets.update_hlen', 'pgpy.types.Header.encode_length', 'pgpy.types.Header.length_bin', 'pgpy.types.Header.llen',
                     'pgpy.types.PGPObject.int_to_bytes', 'pgpy.types.PGPObject.bytes_to_int',
                     'pgpy.packet.types.Header.__bytearray__', 'pgpy.packet.types.Header.parse',
                     'pgpy.packet.types.Header.tag_int', 'pgpy.packet.subpackets.types.Header.parse',
                     'pgpy.packet.subpackets.types.Header.__bytearray__', 'pgpy.packet.types.MPI.__new__',
                     'pgpy.packet.types.MPI.to_mpibytes', 'pgpy.packet.types.MPI.byte_length',
                     'pgpy.packet.fields.String2Key.count']
STUBS = []
OUTSIDE = ['four-octet timestamp <-> datetime for SYMBOLIC instants (two C calls: datetime.fromtimestamp / calendar.timegm): O9.8 covers boundary instants x zones only',
           'partial-length bodies beyond 3 chunks / exponents above the stated bound',
           'MPI values >= 2**64 under Engine B (Engine A covers wider values)']
ASSUMPTIONS = ['RFC 4880 4.2 / 3.2 / 3.7.1.3 formulas as written in this file']


def rfc_newlen(n):
    """RFC 4880 4.2.2: shortest new-format encoding"""
    if n < 192:
        return bytes([n])
    if n < 8384:
        m = n - 192
        return bytes([(m >> 8) + 192, m & 0xFF])
    return bytes([255, (n >> 24) & 0xFF, (n >> 16) & 0xFF, (n >> 8) & 0xFF, n & 0xFF])


def rfc_newlen_arith(n):
    """the same, written with // and % only (symbolic-friendly)"""
    if n < 192:
        return bytes([n])
    if n < 8384:
        m = n - 192
        return bytes([m // 256 + 192, m % 256])
    return bytes([255, n // 16777216, (n // 65536) % 256, (n // 256) % 256, n % 256])


# ------------------------------------------------------------------------------------ O9.1
@ob('O9.1a', 'new-format length: encode is the RFC shortest form and decode(encode(n)) == n consuming exactly it',
    'n in [0, 2**32) (full domain)', cond_timeout={'q': 90, 't': 300})
def newlen_roundtrip(n: int) -> bool:
    """
    pre: 0 <= n < 2**32
    post: _
    """
    enc = bytearray(BaseHeader.encode_length(n, True))
    if bytes(enc) != rfc_newlen_arith(n):
        return False
    h = Header()
    h._lenfmt = 1
    buf = enc + bytearray(b'\xAA\xBB')
    h.length = buf
    return h.length == n and bytes(buf) == b'\xAA\xBB' and h.llen == len(enc)


@ob('O9.1b', 'new-format length: every non-partial octet string decodes to the RFC value and consumes the RFC width',
    '5 symbolic octets, first octet not in 224..254', cond_timeout={'q': 90, 't': 300})
def newlen_decode(b0: int, b1: int, b2: int, b3: int, b4: int) -> bool:
    """
    pre: 0 <= b0 < 256 and 0 <= b1 < 256 and 0 <= b2 < 256 and 0 <= b3 < 256 and 0 <= b4 < 256
    pre: not (224 <= b0 < 255)
    post: _
    """
    buf = bytearray([b0, b1, b2, b3, b4, 0x5A])
    h = Header()
    h._lenfmt = 1
    h.length = buf
    if b0 < 192:
        want, used = b0, 1
    elif b0 < 224:
        want, used = (b0 - 192) * 256 + b1 + 192, 2
    else:
        want, used = b1 * 16777216 + b2 * 65536 + b3 * 256 + b4, 5
    return h.length == want and len(buf) == 6 - used and buf[-1] == 0x5A


# ------------------------------------------------------------------------------------ O9.2
@ob('O9.2', 'partial body lengths: total is the sum of the chunks, length octets removed, body octets kept in order',
    'k<=2 partial headers with exponent 0..2 (quick) / 0..3 (thorough), then a one-octet final length 0..3',
    cond_timeout={'q': 120, 't': 600},
    partitions={'q': [['e1 <= 2', 'e2 <= 2']], 't': [['e1 == %d' % i] for i in range(4)]})
def partial_lengths(k: int, e1: int, e2: int, last: int, fill: int) -> bool:
    """
    pre: 1 <= k <= 2
    pre: 0 <= e1 <= 3 and 0 <= e2 <= 3
    pre: 0 <= last <= 3
    pre: 0 <= fill < 200
    post: _
    """
    exps = [e1, e2][:k]
    buf = bytearray()
    body = bytearray()
    c = fill
    for e in exps:
        buf.append(224 + e)
        for _ in range(1 << e):
            buf.append(c % 251)
            body.append(c % 251)
            c += 1
    buf.append(last)
    for _ in range(last):
        buf.append(c % 251)
        body.append(c % 251)
        c += 1
    buf += b'\xEE'
    h = Header()
    h._lenfmt = 1
    h.length = buf
    return h.length == len(body) and bytes(buf) == bytes(body) + b'\xEE'


BIGFILL = bytes((i * 11 + 1) % 253 for i in range(2 ** 17 + 8))


@ob('O9.2b', 'partial body lengths with large chunks: a first chunk of 2^e octets for every exponent the property names, then a final short length',
    'exponent e in 0..17 (chunks up to 2^17 octets, concrete filler content), final length 0..2, first body octet symbolic',
    cond_timeout={'q': 200, 't': 600})
def partial_big(e: int, last: int, x: int) -> bool:
    """
    pre: 0 <= e <= 17
    pre: 0 <= last <= 2
    pre: 0 <= x < 256
    post: _
    """
    n = 1
    for k in range(18):                       # concrete chunk size per path
        if e == k:
            n = 2 ** k
    body = bytes([x]) + BIGFILL[1:n] + BIGFILL[n:n + last]
    buf = bytearray([224 + e]) + bytearray([x]) + bytearray(BIGFILL[1:n]) + bytearray([last]) + bytearray(BIGFILL[n:n + last]) + bytearray(b'\xEE')
    h = Header()
    h._lenfmt = 1
    h.length = buf
    return h.length == n + last and len(buf) == n + last + 1 and buf[0] == x and buf[-1] == 0xEE and bytes(buf[1:-1]) == body[1:]


FINALS = (0, 1, 191, 192, 193, 8383, 8384, 8385)


@ob('O9.2c', 'partial body lengths whose FINAL part is long: after one or two partial chunks the final length may take the one-, two- or five-octet form (also a five-octet form '
             'for a small value): the total is the sum, every length field is removed, the body octets stay in order and nothing after the packet is touched',
    'k in 1..2 partial chunks of 2^e octets (e by symbolic index from {0, 1, 9}); final length by symbolic index from {0,1,191,192,193,8383,8384,8385}, shortest form or forced five-octet form; '
    'first body octet symbolic, concrete filler', cond_timeout={'q': 240, 't': 600}, partitions=[['k == 1'], ['k == 2']])
def partial_final_wide(k: int, ei: int, fi: int, five: bool, x: int) -> bool:
    """
    pre: k in (1, 2)
    pre: 0 <= ei < 3
    pre: 0 <= fi < 8
    pre: 0 <= x < 256
    post: _
    """
    e = 0
    for j, v in enumerate((0, 1, 9)):
        if ei == j:
            e = v
    last = 0
    for j in range(8):
        if fi == j:
            last = FINALS[j]
    n = 2 ** e
    chunks = [BIGFILL[100:100 + n]] + ([BIGFILL[700:700 + n]] if k == 2 else [])
    tail = BIGFILL[3000:3000 + last]
    lenfield = bytes([255, 0, 0, last // 256, last % 256]) if five else rfc_newlen(last)
    buf = bytearray()
    body = bytearray()
    for j, c in enumerate(chunks):
        c = (bytes([x]) + c[1:]) if j == 0 else c
        buf += bytearray([224 + e]) + bytearray(c)
        body += bytearray(c)
    buf += bytearray(lenfield) + bytearray(tail) + bytearray(b'\xEE\xDD')
    body += bytearray(tail)
    h = Header()
    h._lenfmt = 1
    h.length = buf
    total = n * k + last
    return h.length == total and len(buf) == total + 2 and bytes(buf[:total]) == bytes(body) and bytes(buf[total:]) == b'\xEE\xDD'


# ------------------------------------------------------------------------------------ O9.3 / O9.4
@ob('O9.3', 'old-format header: emitted length field has the width the tag octet announces and decodes to n '
            '(never narrower than the value needs)',
    'tag 0..15, length type 0..2, n in [0, 2**32) restricted to values representable in the announced width '
    '(region where n needs more octets than announced: known finding KF-C09-oldlen)',
    cond_timeout={'q': 300, 't': 600}, partitions=[['lt == 0'], ['lt == 1'], ['lt == 2']])
def oldfmt_header(tag: int, lt: int, n: int) -> bool:
    """
    pre: 0 <= tag < 16
    pre: 0 <= lt <= 2
    pre: 0 <= n < 2**32
    pre: excl('KF-C09-oldlen', (lt == 0 and n >= 256) or (lt == 1 and n >= 65536))
    post: _
    """
    width = 1 if lt == 0 else 2 if lt == 1 else 4
    h = Header()
    h._lenfmt = 0
    h.tag = tag * 4           # tag setter takes the raw first octet
    h.llen = lt
    h.length = n
    out = h.__bytearray__()
    if len(out) != 1 + width:          # a field wider than announced would be misparsed by any reader
        if n < 256 ** width:
            return False
        # value does not fit: acceptable only if the header announces a wider field
        lt2 = out[0] % 4
        if lt2 > 2 or len(out) != 1 + (1, 2, 4)[lt2]:
            return False
    if out[0] != 128 + tag * 4 + out[0] % 4:
        return False
    buf = bytearray(out) + bytearray(b'\x77')
    h2 = Header()
    h2.parse(buf)
    return h2.length == n and bytes(buf) == b'\x77' and h2._lenfmt == 0 and int(h2.tag) == tag


@ob('O9.3k', 'witness of KF-C09-oldlen: old-format header whose length outgrew its announced width',
    'lt in 0..1, n in [256**width, 2**32)', cond_timeout={'q': 60, 't': 60}, known='KF-C09-oldlen', twin=False)
def oldfmt_header_grown(lt: int, n: int) -> bool:
    """
    pre: 0 <= lt <= 1
    pre: (256 if lt == 0 else 65536) <= n < 2**32
    post: _
    """
    return oldfmt_header(6, lt, n)


@ob('O9.4', 'new-format tag octet: bit 7 set, bit 6 set, tag in low 6 bits; parse(bytes(h)) is the identity',
    'tag 0..63, n in [0, 2**32)', cond_timeout={'q': 120, 't': 400})
def newfmt_header(tag: int, n: int) -> bool:
    """
    pre: 0 <= tag < 64
    pre: 0 <= n < 2**32
    post: _
    """
    h = Header()
    h.tag = tag
    h.length = n
    out = h.__bytearray__()
    if out[0] != 0xC0 + tag or bytes(out[1:]) != rfc_newlen_arith(n) or len(h) != len(out):
        return False
    buf = bytearray(out) + bytearray(b'\x77')
    h2 = Header()
    h2.parse(buf)
    return h2.length == n and bytes(buf) == b'\x77' and h2._lenfmt == 1 and int(h2.tag) == tag


# ------------------------------------------------------------------------------------ O9.5
@ob('O9.5', 'subpacket header: length as new-format (value includes the type octet), type 0..127 x critical round trip',
    'typeid 0..127, critical bit, n in [1, 2**32)', cond_timeout={'q': 120, 't': 400})
def subpacket_header(typeid: int, crit: bool, n: int) -> bool:
    """
    pre: 0 <= typeid < 128
    pre: 1 <= n < 2**32
    post: _
    """
    h = SPHeader()
    h.typeid = typeid
    h.critical = crit
    h.length = n
    out = h.__bytearray__()
    want = rfc_newlen_arith(n) + bytes([typeid + (128 if crit else 0)])
    if bytes(out) != want or len(h) != len(out):
        return False
    buf = bytearray(out) + bytearray(b'\x77')
    h2 = SPHeader()
    h2.parse(buf)
    return h2.length == n and h2.typeid == typeid and h2.critical == crit and bytes(buf) == b'\x77'


# ------------------------------------------------------------------------------------ O9.6
@ob('O9.6a', 'MPI: two-octet bit count == bit_length, minimal octets, parse(to_mpibytes(v)) == v consuming len(MPI)',
    'v in [1, 2**32) quick; [1, 2**40) thorough (v == 0: known finding KF-C09-mpi0; wider values: Engine A, O9.6e)',
    cond_timeout={'q': 120, 't': 600}, flags=('symmpi',),
    partitions={'q': [['v < 2**32']], 't': [['v < 2**32'], ['2**32 <= v < 2**40']]})
def mpi_roundtrip(v: int) -> bool:
    """
    pre: 0 <= v < 2**40
    pre: excl('KF-C09-mpi0', v == 0)
    post: _
    """
    from pgpy.packet import types as T
    m = T.MPI(v)
    out = m.to_mpibytes()
    bl = v.bit_length()
    nb = (bl + 7) // 8
    if len(out) != 2 + nb or len(m) != len(out):
        return False
    if out[0] * 256 + out[1] != bl:
        return False
    if nb and out[2] == 0:
        return False
    buf = bytearray(out) + bytearray(b'\x99\x98')
    m2 = T.MPI(buf)
    return m2 == v and bytes(buf) == b'\x99\x98'


@ob('O9.6k', 'witness of KF-C09-mpi0: MPI(0) serialises to 3 octets but reports/consumes 2',
    'v == 0', cond_timeout={'q': 60, 't': 60}, known='KF-C09-mpi0', twin=False, flags=('symmpi',))
def mpi_zero(v: int) -> bool:
    """
    pre: v == 0
    post: _
    """
    return mpi_roundtrip(v)


@ob('O9.6b', 'foreign MPI: declared bit count b with arbitrary octets decodes to the integer of ceil(b/8) octets and consumes them',
    'bit count 0..40, 5 symbolic octets', cond_timeout={'q': 120, 't': 400}, flags=('symmpi',))
def mpi_foreign(bits: int, b0: int, b1: int, b2: int, b3: int, b4: int) -> bool:
    """
    pre: 0 <= bits <= 40
    pre: 0 <= b0 < 256 and 0 <= b1 < 256 and 0 <= b2 < 256 and 0 <= b3 < 256 and 0 <= b4 < 256
    post: _
    """
    from pgpy.packet import types as T
    octs = [b0, b1, b2, b3, b4]
    buf = bytearray([bits // 256, bits % 256] + octs)
    m = T.MPI(buf)
    nb = (bits + 7) // 8
    want = 0
    for i in range(5):
        if i < nb:
            want = want * 256 + octs[i]
    return m == want and len(buf) == 5 - nb


# ------------------------------------------------------------------------------------ O9.7
@ob('O9.7', 'S2K coded count: decoded value is (16 + (c & 15)) << ((c >> 4) + 6) for all 256 codes; setter keeps the code',
    'c in 0..255 (full domain)', cond_timeout={'q': 120, 't': 300})
def s2k_count(c: int) -> bool:
    """
    pre: 0 <= c < 256
    post: _
    """
    s = String2Key()
    s.specifier = String2KeyType.Iterated
    s.count = c
    want = (16 + c % 16) * 2 ** (c // 16 + 6)
    return s.count == want and s._count == c


# ------------------------------------------------------------------------------------ O9.8 four-octet times; O9.9 subpacket growth
from vlib.h import native
from datetime import datetime, timezone, timedelta
ZONES = (timezone.utc, timezone(timedelta(hours=2)), timezone(timedelta(hours=-5, minutes=-30)), timezone(timedelta(hours=14)), timezone(timedelta(hours=-12)), None)
STAMPS = (0, 1, 59, 86399, 86400, 951782400, 1_600_000_000, 2 ** 31 - 1, 2 ** 31, 2 ** 32 - 1)


def _t4(n):
    return bytes([(n // 16777216) % 256, (n // 65536) % 256, (n // 256) % 256, n % 256])


def _time_field(field, zone, stamp):
    """octets a time-bearing field serialises for the instant `stamp` given in `zone`, and the instant it parses back from those octets"""
    from pgpy.packet.packets import PubKeyV4, LiteralData
    from pgpy.packet.subpackets.signature import CreationTime, SignatureExpirationTime
    from pgpy.constants import PubKeyAlgorithm
    when = datetime.fromtimestamp(stamp, timezone.utc).replace(tzinfo=None) if zone is None else datetime.fromtimestamp(stamp, zone)
    from pgpy.packet import Packet
    from pgpy.packet.subpackets import Signature as SigSubPacket
    if field == 0:
        pk = PubKeyV4()
        pk.pkalg = PubKeyAlgorithm.RSAEncryptOrSign
        pk.keymaterial.n, pk.keymaterial.e = MPI(0x81), MPI(3)
        pk.created = when
        pk.update_hlen()
        raw = bytes(pk.__bytearray__())
        return raw[3:7], Packet(bytearray(raw)).created               # C6 len 04 | time
    if field == 1:
        lit = LiteralData()
        lit.mtime = when
        lit.update_hlen()
        raw = bytes(lit.__bytearray__())
        return raw[4:8], Packet(bytearray(raw)).mtime                 # CB len 'b' 00 | time
    sp = CreationTime()
    sp.created = when
    sp.update_hlen()
    raw = bytes(sp.__bytearray__())
    return raw[2:6], SigSubPacket(bytearray(raw)).created             # 05 02 | time


@ob('O9.8', 'four-octet timestamps: key creation time, literal modification time and the signature creation time subpacket each serialise the Unix time of the instant '
            '(whatever zone it was given in; naive values are UTC) and parse back to that instant',
    'field in {public key, literal data, creation-time subpacket} x 10 boundary instants in 0..2^32-1 x zone in {UTC, +02:00, -05:30, +14:00, -12:00, naive}, chosen by symbolic index; '
    'each path concrete and native (the conversions are C calls); process zone UTC-11', cond_timeout={'q': 200, 't': 600})
def time_codec(field: int, zi: int, si: int) -> bool:
    """
    pre: 0 <= field < 3 and 0 <= zi < 6 and 0 <= si < 10
    post: _
    """
    f = z = t = 0
    for k in range(3):
        if field == k:
            f = k
    for k in range(6):
        if zi == k:
            z = k
    for k in range(10):
        if si == k:
            t = k
    with native():
        try:
            octs, back = _time_field(f, ZONES[z], STAMPS[t])
        except (TypeError, ValueError):
            return ZONES[z] is None          # refusing naive values would be fine; zone-aware ones must be accepted
        return bytes(octs) == _t4(STAMPS[t]) and back == datetime.fromtimestamp(STAMPS[t], timezone.utc)


GROW = (0, 1, 189, 190, 191, 192, 193, 8381, 8382, 8383, 8384, 8385)


def _sig_with_policy(n0, hashed_area):
    """a v4 signature packet with a Policy URI subpacket of n0 octets in the hashed or the unhashed area"""
    ct = bytes([5, 2]) + _t4(1571577491)
    issuer = bytes([9, 16]) + bytes.fromhex('0123456789abcdef')
    pol = rfc_newlen(n0 + 1) + bytes([26]) + b'h' * n0
    hashed = ct + (pol if hashed_area else b'')
    unhashed = issuer + (b'' if hashed_area else pol)
    body = bytes([4, 0, 1, 8]) + bytes([len(hashed) // 256, len(hashed) % 256]) + hashed + bytes([len(unhashed) // 256, len(unhashed) % 256]) + unhashed + b'\x12\x34' + b'\x00\x10\xab\xcd'
    return bytes([0xC2]) + rfc_newlen(len(body)) + body


def _grow_case(n0, n1, hashed_area):
    from pgpy.packet import Packet
    pkt = Packet(bytearray(_sig_with_policy(n0, hashed_area)))
    pkt.subpackets['Policy' if not hashed_area else 'h_Policy'][0].uri = 'h' * n1
    pkt.update_hlen()
    raw = bytes(pkt.__bytearray__())
    # an independent reading of the result: tag, new-format length, body; the areas' own length fields; the subpacket's length field
    if raw[0] != 0xC2:
        return False
    if raw[1] < 192:
        ln, w = raw[1], 1
    elif raw[1] < 224:
        ln, w = (raw[1] - 192) * 256 + raw[2] + 192, 2
    elif raw[1] == 255:
        ln, w = int.from_bytes(raw[2:6], 'big'), 5
    else:
        return False
    if ln != len(raw) - 1 - w:
        return False
    return raw == _sig_with_policy(n1, hashed_area)


@ob('O9.9', 'a subpacket of an already parsed signature whose body is changed so that its length crosses a length-width boundary (either direction): after one update_hlen() '
            'every length field - packet, area, subpacket - is exact and minimal: the packet equals the one built directly with the new value',
    'Policy URI in the hashed or the unhashed area; old and new URI lengths by symbolic index from {0,1,189..193,8381..8385}; each path concrete and native', cond_timeout={'q': 280, 't': 600},
    partitions=[['hashed_area'], ['not hashed_area']])
def subpacket_grow(i0: int, i1: int, hashed_area: bool) -> bool:
    """
    pre: 0 <= i0 < 12 and 0 <= i1 < 12
    post: _
    """
    a = b = 0
    for k in range(12):
        if i0 == k:
            a = k
        if i1 == k:
            b = k
    h = True if hashed_area else False
    with native():
        return _grow_case(GROW[a], GROW[b], h)


assert rfc_newlen(1723) == rfc_newlen_arith(1723) == b'\xC5\xFB' and rfc_newlen(100000) == b'\xff\x00\x01\x86\xa0'   # RFC 4880 4.2.3
_GRID = (0, 1, 191, 192, 193, 8383, 8384, 8385, 65535, 65536, 2 ** 24, 2 ** 32 - 1)
SANITY = (['partial_final_wide(%d, %d, %d, %s, 7)' % (k, e, f, v) for k in (1, 2) for e in range(3) for f in (0, 3, 6) for v in (True, False)] + ['time_codec(%d, %d, %d)' % (f, z, t) for f in range(3) for z in (1, 5) for t in (0, 7, 9)] + ['subpacket_grow(%d, %d, %s)' % (a, b, h) for a, b in ((4, 5), (5, 4), (9, 10), (10, 9), (0, 11)) for h in (True, False)] + ['newlen_roundtrip(%d)' % v for v in _GRID] + ['newfmt_header(2, %d)' % v for v in _GRID] +
          ['newfmt_header(63, %d)' % v for v in _GRID] + ['subpacket_header(2, True, %d)' % max(v, 1) for v in _GRID] +
          ['newlen_decode(0xC5, 0xFB, 0, 0, 0)', 'newlen_decode(0xFF, 0, 1, 0x86, 0xA0)', 'partial_lengths(2, 1, 0, 2, 7)',
           'partial_lengths(1, 3, 0, 0, 0)', 'partial_big(0, 0, 5)', 'partial_big(16, 2, 5)', 'partial_big(17, 1, 255)', 'oldfmt_header(6, 0, 255)', 'oldfmt_header(6, 1, 65535)', 'oldfmt_header(2, 2, 2 ** 32 - 1)',
           'mpi_foreign(9, 0, 0xFF, 3, 4, 5)', 'mpi_foreign(0, 1, 2, 3, 4, 5)', 'mpi_foreign(40, 1, 2, 3, 4, 5)'] +
          ['mpi_roundtrip(%d)' % v for v in (1, 2, 255, 256, 65535, 2 ** 39, 2 ** 40 - 1)] +
          ['s2k_count(%d)' % c for c in range(256)])
