"""C07 - public export never carries or exercises secret material (DESIGN.md 3/C07)."""
import copy
import warnings

from vlib.h import ob, native
from harness.sigfix import *          # noqa
from harness.c08 import pack, pub_body, OID_ED, OID_P256, OID_CV, split_one
from pgpy import PGPKey, PGPUID, PGPMessage
from pgpy.packet import Packet
from pgpy.errors import PGPError
import pgpy.constants as K

install_oracle()
warnings.simplefilter('ignore')

FUNCTIONS_ENCODED = ['pgpy.packet.fields.SubPackets.__copy__', 'pgpy.pgp.PGPSignature.__copy__', 'pgpy.packet.packets.PrivKeyV4.pubkey', 'pgpy.pgp.PGPKey.pubkey', 'pgpy.pgp.PGPKey.__bytearray__', 'pgpy.pgp.PGPKey.__or__',
                     'pgpy.decorators.KeyAction.__call__', 'pgpy.decorators.KeyAction.check_attributes', 'pgpy.pgp.PGPKey.add_uid', 'pgpy.pgp.PGPKey.add_subkey',
                     'pgpy.packet.packets.PrivKeyV4.parse', 'pgpy.packet.fields.*Priv.parse']
STUBS = ['signature primitive -> oracle (keys are real Ed25519 keys; no signature is verified here)']
OUTSIDE = ['armored form (base64 of the same octets; base64 is C code)', 'object-graph scanning for stray references to secret integers (a memory property)',
           'key material beyond the stated bounds']
ASSUMPTIONS = []

SEC_RSA_PUB = bytes([0, 32, 0xC1, 2, 3, 5]) + bytes([0, 17, 1, 0, 1])


def materials(ai):
    """(algorithm id, public material octets, function building the secret MPIs from 4 octets)"""
    if ai == 0:
        return 1, SEC_RSA_PUB, lambda a, b, c, d: bytes([0, 8, a, 0, 8, b, 0, 8, c, 0, 8, d])
    if ai == 1:
        return 17, bytes([0, 16, 0x81, 2]) + bytes([0, 8, 0x83]) + bytes([0, 8, 0x85]) + bytes([0, 16, 0x87, 9]), lambda a, b, c, d: bytes([0, 16, a, b])
    if ai == 2:
        return 16, bytes([0, 16, 0x81, 2]) + bytes([0, 8, 0x83]) + bytes([0, 8, 0x85]), lambda a, b, c, d: bytes([0, 16, a, b])
    if ai == 3:
        return 22, OID_ED + bytes([1, 7]) + b'\x40' + bytes(range(32)), lambda a, b, c, d: bytes([0, 32, a, b, c, d])
    if ai == 4:
        return 19, OID_P256 + bytes([2, 3]) + b'\x04' + bytes(range(64)), lambda a, b, c, d: bytes([0, 32, a, b, c, d])
    return 18, OID_CV + bytes([1, 7]) + b'\x40' + bytes(range(32)) + bytes([3, 1, 8, 7]), lambda a, b, c, d: bytes([0, 32, a, b, c, d])


@ob('O7.1', 'the public packet derived from a secret key packet is a function of the public fields only: it equals the public packet built from the '
            'public material alone, whatever the secret integers / encrypted octets are', 'algorithm in {RSA, DSA, ElGamal, EdDSA, ECDSA, ECDH}; unprotected (4 symbolic secret octets, symbolic checksum) '
            'or protected (usage 254/255, 4 symbolic octets in salt / IV / encrypted data); primary or subkey', cond_timeout={'q': 280, 't': 900}, flags=('symmpi',),
    partitions=[['ai == %d' % a] for a in range(6)])
def pubkey_independent_of_secret(ai: int, sub: bool, prot: bool, u255: bool, a: int, b: int, c: int, d: int) -> bool:
    """
    pre: 0 <= ai < 6
    pre: 128 <= a < 256 and 0 <= b < 256 and 0 <= c < 256 and 0 <= d < 256
    post: _
    """
    alg, pubmat, mk = 1, b'', None
    for k in range(6):
        if ai == k:
            alg, pubmat, mk = materials(k)
    body = pub_body(alg, pubmat)
    if not prot:
        body += b'\x00' + mk(a, b, c, d) + bytes([c, d])
    else:
        body += bytes([255 if u255 else 254, 7, 3, 2]) + bytes([a, 1, 2, 3, 4, 5, 6, 7]) + bytes([96]) + bytes([b]) + bytes(15) + bytes([c, d, 9, 8, 7, 6, 5, 4, 3, 2, 1, 0] * 2)
    try:
        sk = Packet(bytearray(pack(7 if sub else 5, body, 0)))
    except PGPError:
        return True
    out = bytes(sk.pubkey().__bytearray__())
    want = pack(14 if sub else 6, pub_body(alg, pubmat), 0)
    return out == want


from datetime import datetime, timezone, timedelta
ZONES = (timezone.utc, timezone(timedelta(hours=2)), timezone(timedelta(hours=-5, minutes=-30)), timezone(timedelta(hours=14)), None)
STAMPS = (0, 1, 1_600_000_000, 2 ** 31 - 1, 2 ** 31, 2 ** 32 - 1)


@ob('O7.1-tz', 'the public packet derived from a secret key packet carries the same creation instant whatever zone the creation time was given in (zone-aware, non-UTC, or naive = UTC)',
    'creation time = one of 6 boundary instants rendered in one of {UTC, +02:00, -05:30, +14:00, naive}; RSA and EdDSA material with 2 symbolic secret octets; primary or subkey', cond_timeout={'q': 280, 't': 600}, flags=('symmpi',))
def pubkey_creation_time(zi: int, si: int, eddsa: bool, sub: bool, a: int, b: int) -> bool:
    """
    pre: 0 <= zi < 5 and 0 <= si < 6
    pre: 128 <= a < 256 and 128 <= b < 256
    post: _
    """
    zone, stamp = ZONES[0], STAMPS[0]
    for k in range(5):
        if zi == k:
            zone = ZONES[k]
    for k in range(6):
        if si == k:
            stamp = STAMPS[k]
    alg, pubmat, mk = materials(3 if eddsa else 0)
    sk = Packet(bytearray(pack(7 if sub else 5, pub_body(alg, pubmat) + b'\x00' + mk(a, b, a, b) + b'\x00\x00', 0)))
    if zone is None:
        try:
            sk.created = datetime.fromtimestamp(stamp, timezone.utc).replace(tzinfo=None)    # naive values are taken as UTC (with a warning)
        except (TypeError, ValueError):
            return True                                                                    # (refusing them would be fine, too)
    else:
        sk.created = datetime.fromtimestamp(stamp, zone)
    t4 = bytes([(stamp // 16777216) % 256, (stamp // 65536) % 256, (stamp // 256) % 256, stamp % 256])
    pub = sk.pubkey()
    want = pack(14 if sub else 6, pub_body(alg, pubmat, t4), 0)
    return bytes(pub.__bytearray__()) == want and bytes(sk.__bytearray__())[:len(want)][2:] == want[2:] and str(pub.fingerprint) == str(sk.fingerprint)


# ------------------------------------------------------------------------------------ key-level fixtures
def build_keys():
    base = new_key('alice', sub=True)
    full = new_key('bob <b@x>', sub=True)
    full.add_uid(PGPUID.new('second'), usage={KeyFlags.Sign}, hashes=[HashAlgorithm.SHA256], created=T0)
    img = b'\xff\xd8\xff\xe0\x00\x10JFIF\x00' + bytes(20)
    full.add_uid(PGPUID.new(bytearray(img)), created=T0)
    other = new_key('carol', sub=False)
    cert = other.certify(full.userids[0], created=T0, hash=HashAlgorithm.SHA256)
    full.userids[0] |= cert
    local = other.certify(full.userids[1], created=T0, hash=HashAlgorithm.SHA256, exportable=False)
    full.userids[1] |= local
    rev = full.revoke(full.userids[1], created=T0, hash=HashAlgorithm.SHA256)
    full.userids[1] |= rev
    # signatures attached to the key itself: its own direct-key signature and one made by another key
    full |= full.certify(full, created=T0, hash=HashAlgorithm.SHA256)
    full |= other.certify(full, created=T0, hash=HashAlgorithm.SHA256)
    return base, full, other


BASE, FULL, OTHER = build_keys()
PROT = new_key('dora', sub=True)
PROT.protect('pw', K.SymmetricKeyAlgorithm.AES128, HashAlgorithm.SHA1)


def foreign_style(key):
    """the same private key as another producer might have written it: the third-party certification's first hashed subpacket length in the 5-octet form"""
    from harness.c14 import rebuild_sig, long_form_first_subpacket
    data = bytes(key.__bytearray__())
    out = b''
    i = 0
    done = False
    while i < len(data):
        tag, hl, bl = split_one(data[i:])
        pkt = data[i:i + hl + bl]
        if tag == 2 and not done and pkt[hl + 1] == 0x10 and OTHER.fingerprint.keyid.encode() in __import__('binascii').hexlify(pkt).upper():
            pkt = rebuild_sig(pkt, long_form_first_subpacket)
            done = True
        out += pkt
        i += hl + bl
    assert done
    return PGPKey.from_blob(out)[0]


FOREIGN = foreign_style(FULL)


def sig_packets(data):
    out = []
    i = 0
    while i < len(data):
        tag, hl, bl = split_one(data[i:])
        if tag == 2:
            out.append(bytes(data[i:i + hl + bl]))
        i += hl + bl
    return sorted(out)


def tags_of(data):
    out = []
    i = 0
    while i < len(data):
        sp = split_one(data[i:])
        if sp is None:
            return None
        out.append(sp[0])
        i += sp[1] + sp[2]
    return out


def secret_octets(key):
    """every secret integer of the key and its subkeys as big-endian octets (for the substring check)"""
    out = []
    for k in [key] + list(key.subkeys.values()):
        km = k._key.keymaterial
        for f in km.__privfields__:
            v = int(getattr(km, f))
            if v:
                out.append(v.to_bytes((v.bit_length() + 7) // 8, 'big'))
    return out


SECRETS = {id(k): secret_octets(k) for k in (BASE, FULL)}


@ob('O7.2', 'the public twin of a key consists only of public-key, user-id, user-attribute and signature packets, has the same fingerprint, identities and subkeys, '
            'and contains no secret integer as an octet substring; taken before or after export/import of the private key',
    'key shape from {uid + subkey; two uids + image + third-party / local / revocation signatures + own and third-party direct-key signatures + subkey; passphrase-protected; the second shape as another producer wrote it (non-minimal hashed subpacket length)}; twin taken directly or from a re-imported private key',
    cond_timeout={'q': 280, 't': 600})
def public_twin_structure(shape: int, reimport: bool) -> bool:
    """
    pre: 0 <= shape < 4
    post: _
    """
    sh = 0
    for k in range(4):
        if shape == k:
            sh = k
    ri = True if reimport else False
    with native():                  # fixture keys are concrete: the choice of shape is all that is symbolic
        return _twin_structure(sh, ri)


def _twin_structure(shape, reimport):
    key = (BASE, FULL, PROT, FOREIGN)[shape]
    if reimport:
        key, _ = PGPKey.from_blob(key.__bytes__())
    pub = key.pubkey
    data = bytes(pub.__bytearray__())
    tags = tags_of(data)
    if tags is None or any(t not in (6, 14, 13, 17, 2) for t in tags) or tags[0] != 6:
        return False
    if pub.fingerprint != key.fingerprint or not pub.is_public:
        return False
    if sorted(bytes(u.hashdata) for u in pub.userids) != sorted(bytes(u.hashdata) for u in key.userids) or len(pub.userattributes) != len(key.userattributes):
        return False
    if list(pub.subkeys) != list(key.subkeys):
        return False
    # the same exportable signatures, octet for octet (also those another producer encoded non-minimally)
    if sig_packets(data) != sig_packets(bytes(key.__bytearray__())):
        return False
    if shape < 2:
        for s in SECRETS[id((BASE, FULL)[shape])]:
            if len(s) >= 8 and s in data:
                return False
    # what is exported publicly is re-importable and stays public
    back, _ = PGPKey.from_blob(data)
    return back.is_public and back.fingerprint == key.fingerprint and all(sk.is_public for sk in back.subkeys.values())


@ob('O7.3', 'objects holding only public material refuse to sign, certify, revoke, add a revoker, bind and decrypt; a private key refuses to encrypt',
    'operation index 0..6 x object form {derived public twin, public key loaded from octets, public subkey}', cond_timeout={'q': 280, 't': 600})
def refusal_matrix(op: int, form: int) -> bool:
    """
    pre: 0 <= op < 7
    pre: 0 <= form < 3
    post: _
    """
    whole = BASE.pubkey                     # kept alive: subkeys refer to their primary weakly
    pub = whole
    if form == 1:
        pub, _ = PGPKey.from_blob(bytes(pub.__bytearray__()))
    elif form == 2:
        pub = list(whole.subkeys.values())[0]
    msg = PGPMessage.new(b'x', compression=K.CompressionAlgorithm.Uncompressed)
    try:
        if op == 0:
            pub.sign(b'doc')
        elif op == 1:
            pub.certify(OTHER.pubkey.userids[0])
        elif op == 2:
            pub.revoke(BASE.pubkey.userids[0])
        elif op == 3:
            pub.revoker(OTHER.pubkey)
        elif op == 4:
            pub.bind(list(BASE.subkeys.values())[0])
        elif op == 5:
            pub.decrypt(msg)
        else:
            BASE.encrypt(msg)                   # private key must refuse public-key encryption
    except PGPError:
        return True
    return False


@ob('O7.4', 'the public twin derived at the end of a history reflects every addition (user ids, subkeys); a twin derived earlier holds public packets only',
    'three steps in symbolic order over {take public twin, add user id, add subkey}', cond_timeout={'q': 280, 't': 600})
def twin_mirror(s0: int, s1: int, s2: int) -> bool:
    """
    pre: 0 <= s0 < 3 and 0 <= s1 < 3 and 0 <= s2 < 3
    pre: s0 != s1 and s1 != s2 and s0 != s2
    post: _
    """
    key = new_key('erin', sub=False)
    pub = None
    for step in (s0, s1, s2):
        if step == 0:
            pub = key.pubkey
        elif step == 1:
            key.add_uid(PGPUID.new('later'), usage={KeyFlags.Sign}, hashes=[HashAlgorithm.SHA256], created=T0)
        else:
            sk = PGPKey.new(PubKeyAlgorithm.EdDSA, EllipticCurveOID.Ed25519, created=T0)
            key.add_subkey(sk, usage={KeyFlags.Sign}, created=T0)
    pub2 = key.pubkey                        # the twin as derived now must reflect the present state
    if sorted(bytes(u.hashdata) for u in pub2.userids) != sorted(bytes(u.hashdata) for u in key.userids) or list(pub2.subkeys) != list(key.subkeys):
        return False
    for t in (pub, pub2):                    # and a twin derived earlier never holds anything but public packets
        tags = tags_of(bytes(t.__bytearray__()))
        if tags is None or not all(x in (6, 14, 13, 17, 2) for x in tags) or not all(k.is_public for k in t.subkeys.values()):
            return False
        if t.fingerprint != key.fingerprint:
            return False
    return True


SANITY = ['pubkey_independent_of_secret(%d, %s, False, False, 0x81, 2, 3, 4)' % (a, s) for a in range(6) for s in (True, False)] + \
         ['pubkey_independent_of_secret(%d, False, True, %s, 0x81, 2, 3, 4)' % (a, u) for a in range(6) for u in (True, False)] + \
         ['public_twin_structure(%d, %s)' % (s, r) for s in range(4) for r in (True, False)] + ['pubkey_creation_time(%d, %d, %s, %s, 0x81, 0x83)' % (z, t, e, e) for z in range(5) for t in (0, 2, 5) for e in (True, False)] + ['refusal_matrix(%d, %d)' % (o, f) for o in range(7) for f in range(3)] + \
         ['twin_mirror(0, 1, 2)', 'twin_mirror(2, 1, 0)', 'twin_mirror(1, 0, 2)']
