"""C06 - secret keys at rest: passphrase protection is correct, checked, wiped after use (DESIGN.md 3/C06)."""
import warnings

from vlib.h import ob
from harness import encfix
from harness.encfix import Cipher, Feed, S2K, inj_digest, HashStub
from harness.c08 import pack, pub_body, OID_ED
from harness.c07 import materials
from pgpy import PGPKey
from pgpy.packet import Packet
from pgpy.errors import PGPError, PGPDecryptionError
from pgpy.constants import SymmetricKeyAlgorithm, HashAlgorithm, String2KeyType
import pgpy.packet.fields as F

encfix.install()
F.hashlib = HashStub
warnings.simplefilter('ignore')

FUNCTIONS_ENCODED = ['pgpy.packet.fields.PrivKey.__bytearray__', 'pgpy.packet.fields.*Priv.clear', 'pgpy.packet.fields.PrivKey.encrypt_keyblob', 'pgpy.packet.fields.PrivKey.decrypt_keyblob', 'pgpy.packet.fields.PrivKey.clear',
                     'pgpy.packet.fields.{RSAPriv,DSAPriv,EdDSAPriv}.decrypt_keyblob / parse', 'pgpy.packet.packets.PrivKeyV4.protect / unprotect / protected / unlocked',
                     'pgpy.pgp.PGPKey.protect', 'pgpy.pgp.PGPKey.unlock', 'pgpy.pgp.PGPKey.is_unlocked / is_protected', 'pgpy.decorators.KeyAction.check_attributes']
STUBS = ['cipher -> ideal model (harness/encfix.py); SHA-1 in fields.py -> collision-free stand-in; String2Key.derive_key -> recording stand-in; os.urandom -> symbolic entropy feed']
OUTSIDE = ['interoperability of the real iterated S2K + CFB with another implementation (derivation is C12)', 'memory residue: stray copies of secret integers in the object graph',
           'RSA/DSA/EdDSA private *operations* after unlock (cryptography library): only that they are refused while locked']
ASSUMPTIONS = ['RFC 4880 5.5.3: usage 254 = secret MPIs || SHA-1 of them, encrypted; usage 255 = secret MPIs || 16-bit sum']


def mpi_of(octs):
    """RFC 4880 3.2 encoding of the integer whose big-endian octets are `octs` (leading zero octets / bits dropped)"""
    octs = list(octs)
    while octs and octs[0] == 0:
        octs = octs[1:]
    if not octs:
        return b'\x00\x00'
    top = octs[0]
    tb = 8
    for k in range(7, 0, -1):
        if top < 2 ** k:
            tb = k
    bits = (len(octs) - 1) * 8 + tb
    return bytes([bits // 256, bits % 256]) + bytes(octs)


def canonical_secret(ai, a, b, c, d):
    """the secret integers of secret_packet() as PGPy must write them: canonical MPIs of the values"""
    if ai == 0:
        return mpi_of([a]) + mpi_of([b]) + mpi_of([c]) + mpi_of([d])
    if ai in (1, 2):
        return mpi_of([a, b])
    return mpi_of([a, b, c, d])


def secret_packet(ai, a, b, c, d, sub=False):
    alg, pubmat, mk = materials(ai)
    sec = mk(a, b, c, d)
    return Packet(bytearray(pack(7 if sub else 5, pub_body(alg, pubmat) + b'\x00' + sec + b'\x00\x00', 0))), canonical_secret(ai, a, b, c, d)


def val(v):
    """the integer behind an MPI without forcing a symbolic one to a concrete value (int(x) would enumerate it)"""
    return v.v if hasattr(v, 'v') else v


def privfields(pkt):
    km = pkt.keymaterial
    return [val(getattr(km, f)) for f in km.__privfields__]


@ob('O6.1', 'protect(): what the cipher receives is  secret-MPIs || SHA-1(secret-MPIs)  under the key derived from the passphrase, with a fresh IV and a fresh '
            'salt from the entropy source; S2K is iterated+salted, usage 254; afterwards every secret field is zero',
    'algorithm in {RSA, DSA, EdDSA}; 4 symbolic secret octets (RSA: four one-octet integers with the top bit set; DSA/EdDSA: one integer incl. leading zero bits); passphrase of 0..2 symbolic characters; two symbolic entropy feed elements (an IV of 16 and a salt of 8 octets are drawn from them, in any order)',
    cond_timeout={'q': 280, 't': 900}, flags=('symmpi',), partitions=[['ai == 0'], ['ai == 1'], ['ai == 3']])
def protect_layout(ai: int, a: int, b: int, c: int, d: int, pw: str, iv: bytes, salt: bytes) -> bool:
    """
    pre: ai in (0, 1, 3)
    pre: 128 <= a < 256 and 0 <= b < 256 and 0 <= c < 256 and 0 <= d < 256
    pre: ai != 0 or (b >= 128 and c >= 128 and d >= 128)
    pre: len(pw) <= 2
    pre: len(iv) == 16 and len(salt) == 16
    post: _
    """
    for k in (0, 1, 3):
        if ai == k:
            pkt, sec = secret_packet(k, a, b, c, d)
    Cipher.reset()
    S2K.log = []
    Feed.reset([iv, salt])                 # two symbolic feed elements; which draw takes which is the library's business
    pkt.protect(pw, SymmetricKeyAlgorithm.AES128, HashAlgorithm.SHA1)
    enc = [e for e in Cipher.log if e[0] == 'enc']
    if len(enc) != 1:
        return False
    _, pt, key, alg, used_iv = enc[0]
    s2k = pkt.keymaterial.s2k
    ok = pt == sec + inj_digest(sec) and used_iv == bytes(s2k.iv) and len(bytes(s2k.salt)) == 8
    ok = ok and encfix.drawn_fresh(Feed.calls, [(16, bytes(s2k.iv)), (8, bytes(s2k.salt))])
    ok = ok and s2k.usage == 254 and s2k.specifier == String2KeyType.Iterated and alg == SymmetricKeyAlgorithm.AES128
    ok = ok and len(S2K.log) == 1 and S2K.log[0][0] == pw.encode('utf-8') and S2K.log[0][1] == bytes(s2k.salt)
    ok = ok and all(v == 0 for v in privfields(pkt)) and pkt.protected and not pkt.unlocked
    return ok


@ob('O6.3', 'unlock check: the decrypted octets are accepted iff (usage 254) the last 20 octets are SHA-1 of the rest or (usage 255) the last two are the 16-bit sum; '
            'otherwise PGPDecryptionError is raised and every secret field stays zero; on acceptance the fields are the MPIs of the decrypted octets',
    'what the cipher returns: symbolic string of 23..24 (usage 254) / 5..6 (usage 255) octets whose leading MPI bit count fits the string; DSA secret key',
    cond_timeout={'q': 280, 't': 900}, flags=('symmpi',), partitions=[['u255', 'len(pt) == %d' % n] for n in (5, 6)] + [['not u255', 'len(pt) == %d' % n] for n in (23, 24)])
def unlock_accept(u255: bool, pt: bytes) -> bool:
    """
    pre: (u255 and 5 <= len(pt) <= 6) or (not u255 and 23 <= len(pt) <= 24)
    pre: pt[0] == 0 and pt[1] <= 8 * (len(pt) - 2 - (2 if u255 else 20))
    post: _
    """
    alg, pubmat, mk = materials(1)
    body = pub_body(alg, pubmat) + bytes([255 if u255 else 254, 7, 3, 2]) + bytes(8) + bytes([96]) + bytes(16) + b'\x01\x02\x03\x04\x05\x06'
    pkt = Packet(bytearray(pack(5, body, 0)))
    Cipher.reset()
    Cipher.adversarial = [bytes(pt)]
    n = len(pt)
    if u255:
        want = (pt[n - 2] * 256 + pt[n - 1]) == sum(pt[:n - 2]) % 65536
    else:
        want = bytes(pt[n - 20:]) == inj_digest(bytes(pt[:n - 20]))
    try:
        pkt.unprotect('pw')
    except PGPDecryptionError:
        return (not want) and all(v == 0 for v in privfields(pkt))
    except PGPError:
        return (not want) and all(v == 0 for v in privfields(pkt))
    if not want:
        return False
    bits = pt[0] * 256 + pt[1]
    nb = (bits + 7) // 8
    want_val = 0
    for i in range(nb):
        want_val = want_val * 256 + (pt[2 + i] if 2 + i < n else 0)
    return privfields(pkt)[0] == want_val


def key_of(ai, a, b, c, d, a2, b2):
    """a PGPKey holding a primary and one subkey built from symbolic secret octets (no identities: only protect/unlock are exercised)"""
    pkt, sec = secret_packet(ai, a, b, c, d)
    spkt, ssec = secret_packet(ai, a2, b2, c, d, sub=True)
    key = PGPKey()
    key._key = pkt
    sub = PGPKey()
    sub._key = spkt
    key |= sub
    return key, sub


@ob('O6.2', 'after protect, after a normal unlock scope and after one that raises: every secret field of the primary and the subkey is zero, the key reports locked, '
            'and inside the scope the original integers are back; a wrong passphrase raises and leaves everything locked',
    'algorithm in {RSA, EdDSA}; 6 symbolic secret octets over primary and subkey; symbolic: does the scope body raise, is the passphrase right',
    cond_timeout={'q': 280, 't': 900}, flags=('symmpi',), partitions=[['ai == 0'], ['ai == 3']])
def unlock_scope(ai: int, a: int, b: int, c: int, d: int, a2: int, b2: int, raises: bool, right: bool) -> bool:
    """
    pre: ai in (0, 3)
    pre: 128 <= a < 256 and 1 <= b < 256 and 1 <= c < 256 and 1 <= d < 256 and 128 <= a2 < 256 and 1 <= b2 < 256
    pre: ai != 0 or (b >= 128 and c >= 128 and d >= 128 and b2 >= 128)
    post: _
    """
    for k in (0, 3):
        if ai == k:
            key, sub = key_of(k, a, b, c, d, a2, b2)
    orig = privfields(key._key) + privfields(sub._key)
    Cipher.reset()
    Feed.reset([])
    key.protect('pw', SymmetricKeyAlgorithm.AES128, HashAlgorithm.SHA1)

    def all_zero():
        return all(v == 0 for v in privfields(key._key) + privfields(sub._key))
    if not all_zero() or key.is_unlocked or sub.is_unlocked or not key.is_protected:
        return False
    Cipher.garbage = bytes(range(1, 42))       # what a wrong key decrypts to (not hash-consistent)
    inside = None
    try:
        with key.unlock('pw' if right else 'px'):
            inside = privfields(key._key) + privfields(sub._key)
            if not key.is_unlocked:
                return False
            if raises:
                raise KeyError('boom')
    except KeyError:
        if not raises:
            return False
    except PGPDecryptionError:
        if right:
            return False
    if right and inside != orig:
        return False
    if not right and inside is not None:
        return False
    return all_zero() and not key.is_unlocked and not sub.is_unlocked


@ob('O6.2b', 'an unlock that fails part-way (the subkey is protected under another passphrase) raises and leaves primary and subkey locked with zeroed secret fields',
    'algorithm in {RSA, EdDSA}; 6 symbolic secret octets; the failing component is the subkey', cond_timeout={'q': 280, 't': 900}, flags=('symmpi',), partitions=[['ai == 0'], ['ai == 3']])
def unlock_partial_failure(ai: int, a: int, b: int, c: int, d: int, a2: int, b2: int) -> bool:
    """
    pre: ai in (0, 3)
    pre: 128 <= a < 256 and 128 <= b < 256 and 128 <= c < 256 and 128 <= d < 256 and 128 <= a2 < 256 and 128 <= b2 < 256
    post: _
    """
    for k in (0, 3):
        if ai == k:
            key, sub = key_of(k, a, b, c, d, a2, b2)
    Cipher.reset()
    Feed.reset([])
    key.protect('A', SymmetricKeyAlgorithm.AES128, HashAlgorithm.SHA1)
    sub._key.unprotect('A')
    sub._key.protect('B', SymmetricKeyAlgorithm.AES128, HashAlgorithm.SHA1)         # each secret-key packet has its own S2K: legal
    Cipher.garbage = bytes(range(1, 42))
    entered = False
    try:
        with key.unlock('A'):
            entered = True
    except (PGPDecryptionError, PGPError):
        pass
    if entered:
        return False
    return all(v == 0 for v in privfields(key._key) + privfields(sub._key)) and not key.is_unlocked and not sub.is_unlocked


from harness import c12 as _c12


@ob('O6.6', 'the key-encryption key for a protected key is derived per RFC 4880 3.7.1 for every passphrase length and coded count (what an independent implementation '
            'will derive when it reads the export): shared with C12-O12.1', 'as C12-O12.1: passphrase length unbounded, all 256 coded counts (Engine A)', engine='A')
def s2k_arithmetic(tier):
    saved = F.String2Key.derive_key
    F.String2Key.derive_key = encfix.REAL_DERIVE_KEY           # this obligation is about the real derivation, not the stand-in
    try:
        return _c12.o12_1(tier)
    finally:
        F.String2Key.derive_key = saved


def replay_arith(L, coded, iterated_):
    saved = F.String2Key.derive_key
    F.String2Key.derive_key = encfix.REAL_DERIVE_KEY
    try:
        return _c12.replay_arith(L, coded, iterated_)
    finally:
        F.String2Key.derive_key = saved


@ob('O6.6b', 'the key-encryption key of a protected key is derived from the UTF-8 octets of a text passphrase exactly as given (what an independent implementation derives): '
             'shared with C12-O12.3c, on the real derive_key', 'as C12-O12.3c: passphrase of 0..2 symbolic characters over all of Unicode; Simple and Salted S2K', cond_timeout={'q': 240, 't': 900},
    partitions=[['spec == 0'], ['spec == 1']])
def text_passphrase_octets(spec: int, salt: bytes, pw: str) -> bool:
    """
    pre: spec in (0, 1)
    pre: len(salt) == 8
    pre: len(pw) <= 2
    post: _
    """
    saved = F.String2Key.derive_key
    F.String2Key.derive_key = encfix.REAL_DERIVE_KEY
    try:
        return _c12.text_passphrase(spec, salt, pw)
    finally:
        F.String2Key.derive_key = saved


NCFG = len(_c12.CONFIGS)


@ob('O6.6c', 'the key-encryption key of a protected key uses one hash context per digest-sized part of the cipher key, each preloaded with its own number of zero octets '
             '(ciphers whose key is longer than the digest: AES-256 / 3DES with SHA-1, AES-192 with RIPEMD-160, ...): shared with C12-O12.3a, on the real derive_key',
    'as C12-O12.3a: 10 (hash, cipher) configurations with 1 and 2 contexts; Simple and Salted S2K; symbolic salt and passphrase of 0..3 octets', cond_timeout={'q': 240, 't': 900},
    partitions=[['cfg == %d' % i] for i in range(len(_c12.CONFIGS))])
def contexts_per_key_part(spec: int, cfg: int, salt: bytes, pw: bytes) -> bool:
    """
    pre: spec in (0, 1)
    pre: 0 <= cfg < NCFG
    pre: len(salt) == 8
    pre: len(pw) <= 3
    post: _
    """
    saved = F.String2Key.derive_key
    F.String2Key.derive_key = encfix.REAL_DERIVE_KEY
    try:
        return _c12.simple_salted(spec, cfg, salt, pw)
    finally:
        F.String2Key.derive_key = saved


@ob('O6.7', 'a foreign protected key that was unlocked and locked again exports the octets it was imported with: nothing of the unlock (integers, checksum) stays behind in the export',
    'DSA / RSA secret key packet with S2K usage 254 or 255 (iterated S2K, AES-128); the cipher stand-in returns the well-formed secret string with 2 symbolic octets; unlock scope ends normally or by an exception',
    cond_timeout={'q': 280, 't': 900}, flags=('symmpi',), partitions=[['u255'], ['not u255']])
def export_after_unlock(u255: bool, rsa: bool, raises: bool, x: int, y: int) -> bool:
    """
    pre: 128 <= x < 256 and 128 <= y < 256
    post: _
    """
    alg, pubmat, mk = materials(0 if rsa else 1)
    body = pub_body(alg, pubmat) + bytes([255 if u255 else 254, 7, 3, 2]) + bytes(8) + bytes([96]) + bytes(16) + b'\x01\x02\x03\x04\x05\x06' * 6
    raw = pack(5, body, 0)
    pkt = Packet(bytearray(raw))
    before = bytes(pkt.__bytearray__())
    if before != raw:
        return False
    sec = mk(x, y, x, y)
    if u255:
        cs = sum(sec) % 65536
        pt = sec + bytes([cs // 256, cs % 256])
    else:
        pt = sec + inj_digest(sec)
    key = PGPKey()
    key._key = pkt
    Cipher.reset()
    Cipher.adversarial = [pt]
    entered = False
    try:
        with key.unlock('pw'):
            entered = True
            if raises:
                raise KeyError('inside the scope')
    except KeyError:
        pass
    finally:
        Cipher.adversarial = None
    if not entered:
        return False
    return bytes(pkt.__bytearray__()) == before and all(v == 0 for v in privfields(pkt)) and not key.is_unlocked


@ob('O6.4', 'the exported protected key depends on the secret integers only through the cipher: with a cipher whose output ignores its input the export is '
            'the same octets whatever the secret integers are', 'algorithm in {RSA, DSA, EdDSA}; 4 symbolic non-zero secret octets (same integer sizes: the ciphertext length necessarily equals the plaintext length) against fixed ones', cond_timeout={'q': 280, 't': 900},
    flags=('symmpi',), partitions=[['ai == 0', 'b < 16'], ['ai == 0', 'b >= 16'], ['ai == 1'], ['ai == 3']])
def export_independent(ai: int, a: int, b: int, c: int, d: int) -> bool:
    """
    pre: ai in (0, 1, 3)
    pre: 128 <= a < 256 and 1 <= b < 256 and 1 <= c < 256 and 1 <= d < 256
    post: _
    """
    outs = []
    for vals in ((a, b, c, d), (0x81, 2, 3, 4)):
        for k in (0, 1, 3):
            if ai == k:
                pkt, sec = secret_packet(k, *vals)
        Cipher.reset()
        Feed.reset([bytes(range(16)), bytes(range(8))])
        saved = F._encrypt
        F._encrypt = lambda pt, key, alg, iv=None: bytearray(len(pt))          # output independent of the plaintext
        try:
            pkt.protect('pw', SymmetricKeyAlgorithm.AES128, HashAlgorithm.SHA1)
        finally:
            F._encrypt = saved
        outs.append(bytes(pkt.__bytearray__()))
    return outs[0] == outs[1]


@ob('O6.5', 'foreign protected forms (simple / salted / iterated S2K, usage 254 and 255, GNU dummy) load as protected and locked, and refuse private use',
    'specifier in {0,1,3,101}; usage in {254,255}; 2 symbolic octets', cond_timeout={'q': 200, 't': 600})
def foreign_forms(spec: int, u255: bool, x0: int, x1: int) -> bool:
    """
    pre: spec in (0, 1, 3, 101)
    pre: 0 <= x0 < 256 and 0 <= x1 < 256
    post: _
    """
    alg, pubmat = 22, OID_ED + bytes([1, 7]) + b'\x40' + bytes(range(32))
    body = pub_body(alg, pubmat) + bytes([255 if u255 else 254])
    if spec == 101:
        body += bytes([0, 101]) + b'\x00GNU' + bytes([1])
    else:
        body += bytes([7, spec, 2])
        if spec >= 1:
            body += bytes([x0, 1, 2, 3, 4, 5, 6, 7])
        if spec == 3:
            body += bytes([96])
        body += bytes([x1]) + bytes(15) + bytes([9, 8, 7, 6, 5, 4, 3, 2, 1] * 4)
    pkt = Packet(bytearray(pack(5, body, 0)))
    key = PGPKey()
    key._key = pkt
    if not (pkt.protected and key.is_protected and not key.is_unlocked):
        return False
    try:
        key.sign(b'x')
    except PGPError:
        return True
    except Exception:
        return spec == 101 and False
    return False


SANITY = ['contexts_per_key_part(%d, %d, b"12345678", b"ab")' % (sp, c) for sp in (0, 1) for c in range(len(_c12.CONFIGS))] + ['export_after_unlock(%s, %s, %s, 0x81, 0x92)' % (u, r, x) for u in (True, False) for r in (True, False) for x in (True, False)] + ['text_passphrase_octets(1, b"12345678", "\\u00e9\\u00fc")', 'text_passphrase_octets(0, b"12345678", "a")'] + ['replay_arith(1100, 0, True)', 'replay_arith(0, 0, False)', 'protect_layout(0, 0x81, 2, 3, 4, "pw", bytes(range(16)), bytes(range(100, 116)))', 'protect_layout(1, 0xFF, 0, 0, 0, "", bytes(16), bytes(range(50, 66)))', 'protect_layout(3, 0x80, 9, 9, 9, "\\u00e9", bytes(range(16)), b"abcdefghijklmnop")',
          'unlock_accept(True, b"\\x00\\x08\\x05\\x00\\x0d")', 'unlock_accept(True, b"\\x00\\x08\\x05\\x00\\x0e")', 'unlock_accept(False, b"\\x00\\x08\\x05" + inj_digest(b"\\x00\\x08\\x05"))',
          'unlock_accept(False, bytes(23))', 'unlock_scope(0, 0x81, 2, 3, 4, 0x91, 7, False, True)', 'unlock_scope(3, 0x81, 2, 3, 4, 0x91, 7, True, True)', 'unlock_scope(0, 0x81, 2, 3, 4, 0x91, 7, False, False)',
          'unlock_partial_failure(0, 0x81, 0x82, 0x83, 0x84, 0x91, 0x92)', 'unlock_partial_failure(3, 0x81, 0x82, 0x83, 0x84, 0x91, 0x92)', 'export_independent(0, 0xF1, 9, 9, 9)', 'export_independent(3, 0xF1, 9, 9, 9)', 'foreign_forms(3, False, 1, 2)', 'foreign_forms(0, True, 1, 2)', 'foreign_forms(101, False, 0, 0)', 'foreign_forms(1, True, 0, 0)']
