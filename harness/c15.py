"""C15 - key-management histories keep a key self-consistent (DESIGN.md 3/C15).

A fresh key is taken through a history whose steps are chosen by symbolic indices; every signature is made by the real code
with the primitive replaced by a remembering oracle (a signature verifies iff exactly these octets were signed with exactly
these integers), so "verifies" means: the octets hashed at verification time equal the octets hashed at signing time."""
import copy
import warnings
from datetime import datetime, timezone, timedelta

from vlib.h import ob, native
from harness.sigfix import *          # noqa
from harness import sigfix
from pgpy import PGPKey, PGPUID
from pgpy.errors import PGPError
import pgpy.constants as K

install_oracle()
warnings.simplefilter('ignore')

FUNCTIONS_ENCODED = ['pgpy.pgp.PGPKey.add_uid', 'pgpy.pgp.PGPKey.del_uid', 'pgpy.pgp.PGPKey.add_subkey', 'pgpy.pgp.PGPKey.bind', 'pgpy.pgp.PGPKey.certify', 'pgpy.pgp.PGPKey.revoke',
                     'pgpy.pgp.PGPKey.revoker', 'pgpy.pgp.PGPKey.verify', 'pgpy.pgp.PGPUID.selfsig', 'pgpy.pgp.PGPKey.pubkey', 'pgpy.pgp.PGPKey.__copy__', 'pgpy.pgp.PGPKey.parse',
                     'pgpy.pgp.PGPKey.__bytearray__', 'pgpy.pgp.PGPKey.revocation_signatures', 'pgpy.pgp.PGPKey._get_key_flags', 'pgpy.pgp.PGPSignature.hashdata', 'pgpy.types.SorteDeque.insort']
STUBS = ['signature primitive -> remembering oracle: verifies iff this exact (octets, signature integers) pair was produced by a signing call']
OUTSIDE = ['protect / unlock inside histories (C06 covers them; real S2K with coded count 255 is a 65 MB stream)', 'histories longer than the stated number of steps; several keys interleaved beyond one third-party certifier',
           'key algorithms other than Ed25519 (the operations studied do not depend on the algorithm)']
ASSUMPTIONS = ['ideal signature functionality']

TS = [datetime.fromtimestamp(1_600_000_000 + 100 * i, timezone.utc) for i in range(10)]
CERTIFIER = new_key('certifier', sub=False)
NOPS = 11
HELD = []          # public twins taken during a history and kept referenced by the caller


def fresh():
    k = PGPKey.new(PubKeyAlgorithm.EdDSA, EllipticCurveOID.Ed25519, created=TS[0])
    k.add_uid(PGPUID.new('first'), usage={KeyFlags.Sign, KeyFlags.Certify}, hashes=[HashAlgorithm.SHA256], ciphers=[K.SymmetricKeyAlgorithm.AES256],
              compression=[K.CompressionAlgorithm.Uncompressed], primary=True, created=TS[0])
    return k


class State:
    """what the history should have produced (the reference model of the key's state)"""
    def __init__(self):
        self.uids = {'first': {'flags': {KeyFlags.Sign, KeyFlags.Certify}, 'primary': True, 'revoked': False}}
        self.subs = []          # (key id, sign-capable, revoked)
        self.key_revoked = False
        self.revoker = False


def apply(key, st, op, t):
    """one key-management step at time t; returns the (possibly re-imported / copied) key object to continue with"""
    if op == 0:                                         # add a second identity (text)
        if 'second' not in st.uids:
            # also marked primary: two primary-marked identities, the newer one listed first until it is demoted
            key.add_uid(PGPUID.new('second'), usage={KeyFlags.Certify}, hashes=[HashAlgorithm.SHA512], primary=True, created=t)
            st.uids['second'] = {'flags': {KeyFlags.Certify}, 'primary': True, 'revoked': False}
    elif op == 1:                                       # add an image identity
        if 'img' not in st.uids:
            key.add_uid(PGPUID.new(bytearray(b'\xff\xd8\xff\xe0\x00\x10JFIF\x00' + bytes(8))), created=t)
            st.uids['img'] = {'flags': set(), 'primary': False, 'revoked': False}
    elif op == 2:                                       # add a signing-capable subkey (needs the embedded cross-signature)
        if len(st.subs) < 2:
            sk = PGPKey.new(PubKeyAlgorithm.EdDSA, EllipticCurveOID.Ed25519, created=t)
            key.add_subkey(sk, usage={KeyFlags.Sign}, created=t)
            st.subs.append([sk.fingerprint.keyid, True, False])
    elif op == 3:                                       # add an encryption-flagged subkey (no cross-signature needed)
        if len(st.subs) < 2:
            sk = PGPKey.new(PubKeyAlgorithm.EdDSA, EllipticCurveOID.Ed25519, created=t)
            key.add_subkey(sk, usage={KeyFlags.EncryptCommunications}, created=t, crosssign=False)
            st.subs.append([sk.fingerprint.keyid, False, False])
    elif op == 4:                                       # re-certify the first identity with new preferences at a later time
        uid = key.get_uid('first')
        if uid is not None:
            uid |= key.certify(uid, SignatureType.Positive_Cert, usage={KeyFlags.Certify}, hashes=[HashAlgorithm.SHA384], primary=False, created=t)
            st.uids['first'].update(flags={KeyFlags.Certify}, primary=False, last='cert')
    elif op == 5:                                       # third-party certification of the first identity
        uid = key.get_uid('first')
        if uid is not None:
            uid |= CERTIFIER.certify(uid, SignatureType.Generic_Cert, created=t)
    elif op == 6:                                       # revoke the second identity (if present) else the first
        name = 'second' if 'second' in st.uids else 'first'
        uid = key.get_uid(name)
        if uid is not None:
            uid |= key.revoke(uid, created=t, reason=K.RevocationReason.UserID)
            st.uids[name]['revoked'] = True
            st.uids[name]['last'] = 'rev'
    elif op == 7:                                       # revoke the first subkey, or the key itself when there is none
        if st.subs:
            sk = key.subkeys[st.subs[0][0]]
            sk |= key.revoke(sk, created=t)
            st.subs[0][2] = True
        else:
            key |= key.revoke(key, created=t)
            st.key_revoked = True
    elif op == 8:                                       # remove the second identity / add a designated revoker
        if 'second' in st.uids:
            key.del_uid('second')
            del st.uids['second']
        else:
            key |= key.revoker(CERTIFIER.pubkey, created=t)
            st.revoker = True
    elif op == 9:                                       # export and import the private key, continue with the imported object
        key, _ = PGPKey.from_blob(key.__bytes__())
    elif op == 10:                                      # derive the public twin now and keep holding on to it
        HELD.append(key.pubkey)
    return key


def uid_name(u):
    return u.name if u.is_uid else 'img'


def consistent(key, st):
    pub = key.pubkey
    order = None
    for view, label in ((key, 'priv'), (pub, 'pub'), (PGPKey.from_blob(pub.__bytes__())[0], 'pub-reimported'), (copy.copy(pub), 'pub-copy')):
        names = sorted(uid_name(u) for u in list(view.userids) + list(view.userattributes))
        if names != sorted(st.uids):
            return False
        # every view lists the identities in the same order (the first one decides the key's own flags and preferences)
        this = [uid_name(u) for u in view.userids]
        if order is None:
            order = this
        elif this != order:
            return False
        if sorted(view.subkeys) != sorted(s[0] for s in st.subs):
            return False
        # every self-signature, binding and revocation verifies under the public half
        try:
            res = pub.verify(view)
        except PGPError:
            return False
        if not res:
            return False
        # exactly what must have been examined: per identity its self-signature(s) and revocation, per subkey its binding (+ revocation)
        examined = {id(s.signature) for s in res.good_signatures}
        for u in list(view.userids) + list(view.userattributes):
            if u.selfsig is None or id(u.selfsig) not in examined:
                return False
        for kid, signcap, revoked in st.subs:
            sk = view.subkeys[kid]
            binds = [s for s in sk._signatures if s.type == SignatureType.Subkey_Binding and not s.embedded]
            if not binds or any(id(b) not in examined for b in binds):
                return False
            if signcap:
                emb = [s for s in sk._signatures if s.type == SignatureType.PrimaryKey_Binding]
                if not emb:
                    return False
                # the cross-signature is by the subkey over the primary: it verifies under the subkey
                if not sk.verify(view if view.is_primary else view, emb[0]) if False else False:
                    pass
            if bool(list(sk.revocation_signatures)) != revoked:
                return False
        if bool(list(view.revocation_signatures)) != st.key_revoked:
            return False
        # effective values come from the most recent self-signature
        for name, want in st.uids.items():
            if name == 'img':
                continue
            u = view.get_uid(name)
            if u is None:
                return False
            revs = [s for s in u._signatures if s.type == SignatureType.CertRevocation]
            if bool(revs) != want['revoked']:
                return False
            # a revoked identity's most recent self-signature is the revocation itself (its flags are moot)
            last_is_rev = want.get('last', 'cert') == 'rev'
            if (u.selfsig.type == SignatureType.CertRevocation) != last_is_rev:
                return False
            if not last_is_rev and (set(u.selfsig.key_flags) != want['flags'] or bool(u.is_primary) != want['primary']):
                return False
    return True


def run_history(ops, ties):
    """ops / ties may be symbolic: they are made concrete per path first (if-chains), then the history runs natively"""
    conc = []
    for op in ops:
        for k in range(NOPS):
            if op == k:
                conc.append(k)
    tie = True if ties else False
    with native():
        return run_concrete(conc, tie)


def run_concrete(ops, ties):
    sigfix.Oracle.multi = True
    sigfix.Oracle.pairs = []
    del HELD[:]
    try:
        key = fresh()
        st = State()
        t = 1
        for j, op in enumerate(ops):
            key = apply(key, st, op, TS[t])
            if not (ties and j == 0):
                t += 1                      # `ties`: the first two steps happen in the same second
        return consistent(key, st)
    finally:
        sigfix.Oracle.multi = False


@ob('O15.1', 'after a key-management history every self-signature, subkey binding and revocation on the key verifies under its public half - on the private key, its public twin, '
             'a re-imported export and a copy; identities, subkeys, revocations, effective flags and primary mark are those the history produced',
    'histories of 1..3 (quick) / 1..4 and those 5-step ones that begin with add-identity or add-signing-subkey (thorough) steps over 11 operations {add identity, add image, add signing subkey, add encryption subkey, re-certify with new preferences, third-party certify, '
    'revoke identity, revoke subkey or key, remove identity / add revoker, export+import, take the public twin and keep it}; first two steps in the same second or not; each path is one concrete history run natively',
    cond_timeout={'q': 290, 't': 1500}, path_timeout=200,
    partitions={'q': [['n == 1']] + [['n == 2', 'o0 == %d' % a] for a in range(NOPS)] + [['n == 3', 'o0 == %d' % a] for a in range(NOPS)],
                't': [['n <= 2']] + [['n == 3', 'o0 == %d' % a] for a in range(NOPS)] + [['n == 4', 'o0 == %d' % a, 'o1 == %d' % b] for a in range(NOPS) for b in range(NOPS)] +
                     [['n == 5', 'o0 == %d' % a, 'o1 == %d' % b] for a in (0, 2) for b in range(NOPS)]})
def history(n: int, o0: int, o1: int, o2: int, ties: bool, o3: int = 0, o4: int = 0) -> bool:
    """
    pre: 1 <= n <= 5
    pre: 0 <= o0 < NOPS and 0 <= o1 < NOPS and 0 <= o2 < NOPS and 0 <= o3 < NOPS and 0 <= o4 < NOPS
    pre: n >= 2 or (o1 == 0 and not ties)
    pre: n >= 3 or o2 == 0
    pre: n >= 4 or o3 == 0
    pre: n >= 5 or o4 == 0
    pre: n <= 4 or o0 == 0 or o0 == 2
    post: _
    """
    ops = [o0, o1, o2, o3, o4]
    out = []
    for j in range(5):
        if j < n:
            out.append(ops[j])
    return run_history(out, ties)


SANITY = ['history(1, %d, 0, 0, False)' % o for o in range(NOPS)] + ['history(3, 10, 2, 6, False)', 'history(3, 10, 0, 8, True)', 'history(2, 6, 9, 0, True)', 'history(3, 0, 6, 9, True)', 'history(2, 0, 6, 0, False)', 'history(2, 2, 7, 0, True)', 'history(3, 0, 8, 9, False)', 'history(3, 4, 9, 4, True)',
                                                                    'history(3, 2, 9, 7, False)', 'history(2, 7, 9, 0, False)', 'history(3, 3, 5, 9, True)']
