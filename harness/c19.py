"""C19 - keyring index stays consistent over any load / unload history (DESIGN.md 3/C19).

The unit is the index (PGPKeyring._add_key/_add_alias/_sort_alias/unload/_get_key/__contains__/fingerprints), driven with
light-weight PGPKey subclasses whose fingerprint, creation time, key half, user ids and subkeys are plain attributes."""
import collections
import warnings

from vlib.h import ob, native
from pgpy import PGPKey, PGPKeyring
from pgpy.types import Fingerprint

warnings.simplefilter('ignore')

FUNCTIONS_ENCODED = ['pgpy.pgp.PGPKey.parse (several keys / both halves in one blob)', 'pgpy.pgp.PGPKeyring.load (octets, armored text)', 'pgpy.pgp.PGPKeyring.load', 'pgpy.pgp.PGPKeyring._add_key', 'pgpy.pgp.PGPKeyring._add_alias',
                     'pgpy.pgp.PGPKeyring._sort_alias', 'pgpy.pgp.PGPKeyring.unload', 'pgpy.pgp.PGPKeyring._get_key',
                     'pgpy.pgp.PGPKeyring.key', 'pgpy.pgp.PGPKeyring.__contains__', 'pgpy.pgp.PGPKeyring.fingerprints',
                     'pgpy.pgp.PGPKeyring.__len__']
STUBS = ['PGPKey -> subclass with fingerprint / created / is_public / userids / subkeys / parent as plain attributes (no packet parsing)']
OUTSIDE = ['loading from files and lists; selection by message or signature object; real keys beyond the two of O19.3 (the symbolic histories O19.1/O19.2 use attribute stand-ins)',
           'histories longer than the stated number of steps; more than three keys']
ASSUMPTIONS = []


class U:
    def __init__(self, name, comment, email):
        self.name, self.comment, self.email = name, comment, email


class K(PGPKey):
    def __init__(self, fp, created, public, uids, subs=(), parent=None):
        super().__init__()
        self._fp = Fingerprint(fp)
        self._created = created
        self._public = public
        self._u = uids
        self._key = object()
        self._par = parent
        self._subs = collections.OrderedDict()
        for s in subs:
            s._par = self
            self._subs[s.fingerprint.keyid] = s
    fingerprint = property(lambda s: s._fp)
    created = property(lambda s: s._created)
    is_public = property(lambda s: s._public)
    is_primary = property(lambda s: s._par is None)
    userids = property(lambda s: s._u)
    subkeys = property(lambda s: s._subs)
    parent = property(lambda s: s._par)


def fp(i):
    return '%040X' % (0x1111111111111111111111111111111111111111 * (i + 1) + 0x0123456789ABCDEF0000 * i)


def universe(u, c0, c1, c2, half):
    """three keys; creation order symbolic in {0,1,2}; `half` flips which are public"""
    pub = [True, True, True]
    if u == 0:          # all three share a name; two share an e-mail; one has a comment
        ids = [[U('n', '', 'a@x')], [U('n', 'c', '')], [U('n', '', 'a@x')]]
        subs = [(), (), ()]
    elif u == 1:        # two share an e-mail, the third has a subkey and a second identity
        ids = [[U('p', '', 'a@x')], [U('q', 'c', 'a@x')], [U('r', 'c', ''), U('p', '', '')]]
        subs = [(), (), (K(fp(7), 5, True, []),)]
    elif u == 3:        # the same key half present twice as distinct objects (loaded from two sources), plus another key sharing its name
        ids = [[U('n', 'c', 'a@x')], [U('n', 'c', 'a@x')], [U('n', '', '')]]
        subs = [(K(fp(8), 5, True, []),), (K(fp(8), 5, True, []),), ()]
    else:               # public and private halves of the same key coexist, plus an unrelated key sharing the name
        ids = [[U('n', '', 'a@x')], [U('n', '', 'a@x')], [U('n', 'k', '')]]
        subs = [(K(fp(8), 5, True, []),), (K(fp(8), 5, False, []),), ()]
        pub = [True, False, True]
    if half:
        pub = [not p for p in pub]
    cs = (c0, c1, c2)
    fps = [fp(0), fp(1), fp(2)] if u not in (2, 3) else [fp(0), fp(0), fp(2)]
    return [K(fps[i], cs[i], pub[i], ids[i], subs[i]) for i in range(3)]


def spaced(f):
    s = str(f)
    return ' '.join(s[i:i + 4] for i in range(0, 40, 4))


def consistent(kr, keys, loaded):
    objs = [keys[i] for i in loaded]
    allobjs = []
    for k in objs:
        allobjs.append(k)
        allobjs.extend(k.subkeys.values())
    want_fps = {k.fingerprint for k in allobjs}
    if kr.fingerprints() != want_fps:
        return False
    if len(kr) != len(allobjs):
        return False
    every = []
    for k in keys:
        every.append(k)
        every.extend(k.subkeys.values())
    for k in every:
        f = k.fingerprint
        is_loaded = any(k is o for o in allobjs)
        carried_by_loaded = any(o.fingerprint == f for o in allobjs)
        for alias in (f, f.keyid, f.shortid, spaced(f)):
            if (alias in kr) != carried_by_loaded:
                return False
            if carried_by_loaded:
                with kr.key(alias) as got:
                    if got.fingerprint != f or not any(got is o for o in allobjs):
                        return False
    # names, comments, e-mails
    idents = set()
    for k in keys:
        for uid in k.userids:
            for v in (uid.name, uid.comment, uid.email):
                if v:
                    idents.add(v)
    for ident in sorted(idents):
        carriers = [o for o in objs if any(ident in (uid.name, uid.comment, uid.email) for uid in o.userids)]
        if (ident in kr) != bool(carriers):
            return False
        if carriers:
            with kr.key(ident) as got:
                if not any(got is o for o in carriers):
                    return False
    return True


def _conc(sym, values):
    for v in values:
        if sym == v:
            return v
    return values[0]


def run_history(u, ops, c0, c1, c2, half):
    """every choice is made concrete per path (operations, creation order, which half is public), then the history runs natively: sorting with
    symbolic keys inside the keyring went through CrossHair's model of sorted(), which produced two non-reproducing counterexamples in the thorough tier"""
    u = _conc(u, (0, 1, 2, 3))
    ops = [_conc(o, (0, 1, 2, 3, 4, 5, 6, 9)) for o in ops]
    c0, c1, c2 = _conc(c0, (0, 1, 2)), _conc(c1, (0, 1, 2)), _conc(c2, (0, 1, 2))
    half = True if half else False
    with native():
        return _run_history(u, ops, c0, c1, c2, half)


def _run_history(u, ops, c0, c1, c2, half):
    keys = universe(u, c0, c1, c2, half)
    kr = PGPKeyring()
    loaded = []
    for o in ops:
        if o == 6:
            continue                                # no-op: shorter history
        i = o % 3
        if o < 3:
            kr.load(keys[i])
            if i not in loaded:
                loaded.append(i)
        else:
            kr.unload(keys[i])
            if i in loaded:
                loaded.remove(i)
    return consistent(kr, keys, loaded)          # every prefix of a history is itself a (shorter) history


Q3 = [['o3 == 6', 'o4 == 9', 'o1 == %d' % b] for b in range(6)]                       # three steps, split on the second op
T4 = [['o4 == 9', 'o1 == %d' % b, 'o2 == %d' % c] for b in range(6) for c in range(6)]  # four steps, split on ops 2 and 3


@ob('O19.1a', 'index consistency after a load/unload history (universe 0: three keys sharing a name, two sharing an e-mail, one with a comment)',
    'histories of 3 steps (quick) / 4 steps (thorough) over load i / unload i, i < 3, first op a load; creation times symbolic in {0,1}^3 '
    '(ties and both orders); consistency evaluated at the end of the history (every prefix is a shorter history)',
    cond_timeout={'q': 280, 't': 1500}, path_timeout=120, partitions={'q': Q3, 't': T4})
def hist_u0(o0: int, o1: int, o2: int, o3: int, o4: int, c0: int, c1: int, c2: int) -> bool:
    """
    pre: 0 <= o0 < 3
    pre: 0 <= o1 < 6 and 0 <= o2 < 6
    pre: 0 <= o3 < 7
    pre: (0 <= o4 < 6 and o3 != 6) or o4 == 9
    pre: 0 <= c0 < 2 and 0 <= c1 < 2 and 0 <= c2 < 2
    post: _
    """
    ops = [o0, o1, o2, o3] + ([o4] if o4 != 9 else [])
    return run_history(0, ops, c0, c1, c2, False)


@ob('O19.1b', 'index consistency (universe 1: shared e-mail and comment, a key with a subkey and two identities)',
    'histories of 3 steps (quick) / 4 steps (thorough); creation times symbolic in {0,1}^3', cond_timeout={'q': 280, 't': 1500}, path_timeout=120,
    partitions={'q': Q3, 't': T4})
def hist_u1(o0: int, o1: int, o2: int, o3: int, o4: int, c0: int, c1: int, c2: int) -> bool:
    """
    pre: 0 <= o0 < 3
    pre: 0 <= o1 < 6 and 0 <= o2 < 6
    pre: 0 <= o3 < 7
    pre: (0 <= o4 < 6 and o3 != 6) or o4 == 9
    pre: 0 <= c0 < 2 and 0 <= c1 < 2 and 0 <= c2 < 2
    post: _
    """
    ops = [o0, o1, o2, o3] + ([o4] if o4 != 9 else [])
    return run_history(1, ops, c0, c1, c2, False)


@ob('O19.1c', 'index consistency (universe 2: public and private halves of one key coexist, each with the subkey, plus a key sharing the name)',
    'histories of 3 steps (quick) / 4 steps (thorough); creation times symbolic in {0,1}^3; halves as given or all flipped',
    cond_timeout={'q': 280, 't': 1500}, path_timeout=120,
    partitions={'q': [p + [h] for p in Q3 for h in ('half', 'not half')], 't': [p + [h] for p in T4 for h in ('half', 'not half')]})
def hist_u2(o0: int, o1: int, o2: int, o3: int, o4: int, c0: int, c1: int, c2: int, half: bool) -> bool:
    """
    pre: 0 <= o0 < 3
    pre: 0 <= o1 < 6 and 0 <= o2 < 6
    pre: 0 <= o3 < 7
    pre: (0 <= o4 < 6 and o3 != 6) or o4 == 9
    pre: 0 <= c0 < 2 and 0 <= c1 < 2 and 0 <= c2 < 2
    post: _
    """
    ops = [o0, o1, o2, o3] + ([o4] if o4 != 9 else [])
    return run_history(2, ops, c0, c1, c2, half)


@ob('O19.1d', 'index consistency (universe 3: the same key half loaded twice as two distinct objects - e.g. from a file and from text - plus a key sharing its name)',
    'histories of 3 steps (quick) / 4 steps (thorough); creation times symbolic in {0,1}^3', cond_timeout={'q': 280, 't': 1500}, path_timeout=120,
    partitions={'q': Q3, 't': T4})
def hist_u3(o0: int, o1: int, o2: int, o3: int, o4: int, c0: int, c1: int, c2: int) -> bool:
    """
    pre: 0 <= o0 < 3
    pre: 0 <= o1 < 6 and 0 <= o2 < 6
    pre: 0 <= o3 < 7
    pre: (0 <= o4 < 6 and o3 != 6) or o4 == 9
    pre: 0 <= c0 < 2 and 0 <= c1 < 2 and 0 <= c2 < 2
    pre: c0 == c1
    post: _
    """
    ops = [o0, o1, o2, o3] + ([o4] if o4 != 9 else [])
    return run_history(3, ops, c0, c1, c2, False)


PAIR = (0, 1, 3, 4)          # load 0, load 1, unload 0, unload 1


@ob('O19.2', 'five-step histories over two keys that share a name (the depth at which re-load after unload matters)',
    'load A, load B, then three symbolic ops over {load A, load B, unload A, unload B}; universes 0, 2 and 3; creation times of A, B symbolic in {0,1}^2',
    cond_timeout={'q': 280, 't': 900}, path_timeout=120, partitions=[['u == %d' % u, 'a == %d' % a] for u in (0, 2, 3) for a in range(4)])
def hist_pair5(u: int, a: int, b: int, c: int, c0: int, c1: int) -> bool:
    """
    pre: u in (0, 2, 3)
    pre: 0 <= a < 4 and 0 <= b < 4 and 0 <= c < 4
    pre: 0 <= c0 < 2 and 0 <= c1 < 2
    post: _
    """
    return run_history(u, [0, 1, PAIR[a], PAIR[b], PAIR[c]], c0, c1, 0, False)


# ------------------------------------------------------------------------------------ O19.3 real keys loaded from octets
from harness import sigfix as _sf

RK = _sf.new_key('real one <r@x>', sub=True)
RK2 = _sf.new_key('real one <r@x>', sub=False)            # another key sharing the whole identity
SEC, PUBB = bytes(RK.__bytearray__()), bytes(RK.pubkey.__bytearray__())
SEC2 = bytes(RK2.__bytearray__())
BLOBS = (PUBB, SEC, SEC + PUBB, PUBB + SEC, SEC2, SEC2 + PUBB)
BLOB_HALVES = ((('a', True),), (('a', False),), (('a', False), ('a', True)), (('a', True), ('a', False)), (('b', False),), (('b', False), ('a', True)))


def _real_history(ops, armored):
    """ops 0..5: load blob i; 6: unload the public half of key a; 7: unload its private half; 8: unload key b"""
    kr = PGPKeyring()
    cnt = {('a', True): 0, ('a', False): 0, ('b', False): 0}       # every load makes new objects: the same half may be present several times
    fpa, fpb = RK.fingerprint, RK2.fingerprint
    suba = list(RK.subkeys.values())[0].fingerprint
    for o in ops:
        if o < 6:
            blob = BLOBS[o]
            if armored and o < 2:
                blob = str(RK.pubkey if o == 0 else RK)
            kr.load(blob)
            for h in BLOB_HALVES[o]:
                cnt[h] += 1
        else:
            want = (('a', True), ('a', False), ('b', False))[o - 6]
            if cnt[want]:
                f = fpa if want[0] == 'a' else fpb
                objs = [k for k in kr._keys.values() if k.is_primary and k.fingerprint == f and k.is_public == want[1]]
                if len(objs) != cnt[want]:
                    return False
                kr.unload(objs[0])
                cnt[want] -= 1
        have = {h for h, c in cnt.items() if c}
        # --- the index after every step
        for half, flag in (('public', True), ('private', False)):
            want_fps = set()
            if ('a', flag) in have:
                want_fps |= {fpa, suba}
            if ('b', flag) in have:
                want_fps.add(fpb)
            if kr.fingerprints(keyhalf=half) != want_fps:
                return False
        a_loaded = ('a', True) in have or ('a', False) in have
        b_loaded = ('b', False) in have
        for f, present in ((fpa, a_loaded), (suba, a_loaded), (fpb, b_loaded)):
            for alias in (f, f.keyid, f.shortid, spaced(f)):
                if (alias in kr) != present:
                    return False
                if present:
                    with kr.key(alias) as got:
                        if got.fingerprint != f:
                            return False
        for ident in ('real one', 'r@x'):
            if (ident in kr) != (a_loaded or b_loaded):
                return False
            if a_loaded or b_loaded:
                with kr.key(ident) as got:
                    if got.fingerprint not in ((fpa,) if a_loaded else ()) + ((fpb,) if b_loaded else ()):
                        return False
    return True


@ob('O19.3', 'real keys loaded from octets and armored text: both halves of one key (in separate blobs or in ONE blob, either order) and a second key sharing its identity; '
             'after every step fingerprints(keyhalf=...) report exactly the loaded halves with their subkeys, and fingerprint / key id / short id / spaced fingerprint / name / e-mail select a loaded key carrying them',
    'histories of 1..3 steps over {load public blob, load secret blob, load secret+public in one blob, load public+secret in one blob, load the second key, load second key + public of the first, '
    'unload public half, unload private half, unload second key}; binary or armored for the single-key blobs; each path concrete and native', cond_timeout={'q': 280, 't': 900},
    partitions={'q': [['n <= 2']] + [['n == 3', 'o0 == %d' % a] for a in range(9)], 't': [['n <= 2']] + [['n == 3', 'o0 == %d' % a] for a in range(9)] + [['n == 4', 'o0 == %d' % a, 'o1 == %d' % b] for a in range(9) for b in range(9)]})
def real_blob_history(n: int, o0: int, o1: int, o2: int, armored: bool, o3: int = 0) -> bool:
    """
    pre: 1 <= n <= 4
    pre: 0 <= o0 < 9 and 0 <= o1 < 9 and 0 <= o2 < 9 and 0 <= o3 < 9
    pre: n >= 2 or o1 == 0
    pre: n >= 3 or o2 == 0
    pre: n >= 4 or o3 == 0
    post: _
    """
    ops = []
    for j, sym in enumerate((o0, o1, o2, o3)):
        if j < n:
            for k in range(9):
                if sym == k:
                    ops.append(k)
    arm = True if armored else False
    with native():
        return _real_history(ops, arm)


SANITY = ['real_blob_history(3, 2, 6, 7, False)', 'real_blob_history(3, 3, 7, 0, True)', 'real_blob_history(3, 5, 6, 8, False)', 'real_blob_history(2, 1, 0, 0, True)', 'real_blob_history(3, 0, 1, 6, False)'] + ['hist_u0(0, 1, 3, 0, 3, 0, 0, 0)', 'hist_u0(0, 1, 2, 4, 9, 1, 0, 1)', 'hist_u0(2, 5, 2, 1, 0, 0, 1, 0)', 'hist_u0(0, 1, 2, 6, 9, 0, 0, 0)',
          'hist_u1(0, 1, 2, 5, 4, 0, 0, 0)', 'hist_u1(2, 0, 5, 2, 9, 1, 1, 0)', 'hist_u2(0, 1, 2, 3, 4, 0, 0, 1, False)',
          'hist_u2(1, 0, 4, 1, 3, 0, 0, 0, True)', 'hist_u2(0, 2, 1, 5, 9, 1, 0, 0, False)', 'hist_pair5(0, 2, 0, 2, 0, 0)', 'hist_pair5(2, 2, 0, 2, 1, 0)',
          'hist_pair5(0, 3, 1, 3, 0, 1)', 'hist_u3(0, 1, 3, 6, 9, 0, 0, 0)', 'hist_u3(0, 1, 2, 3, 4, 1, 1, 0)', 'hist_pair5(3, 2, 0, 2, 0, 0)', 'hist_pair5(3, 2, 3, 0, 1, 1)']
