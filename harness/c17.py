"""C17 - verification verdicts are coherent: disqualifying conditions always disqualify (DESIGN.md 3/C17)."""
import warnings
from datetime import datetime, timezone

import z3

from vlib.h import ob, native, excl
from vlib import astsmt
from pgpy import PGPKey, PGPUID, PGPSignature
from pgpy.constants import SecurityIssues, PubKeyAlgorithm, EllipticCurveOID, KeyFlags, HashAlgorithm, SignatureType
from pgpy.types import SignatureVerification
import pgpy.packet.fields as F

warnings.simplefilter('ignore')

FUNCTIONS_ENCODED = ['pgpy.pgp.PGPKey.is_expired / expires_at (O17.5, real)', 'pgpy.packet.fields.RSAPub.verify (O17.6, real)', 'pgpy.constants.SecurityIssues.causes_signature_verify_to_fail', 'pgpy.pgp.PGPKey.verify',
                     'pgpy.pgp.PGPKey.check_soundness', 'pgpy.types.SignatureVerification.__bool__',
                     'pgpy.types.SignatureVerification.good_signatures', 'pgpy.types.SignatureVerification.bad_signatures',
                     'pgpy.types.SignatureVerification.__and__', 'pgpy.types.SignatureVerification.__len__',
                     'pgpy.types.SignatureVerification.add_sigsubj', 'pgpy.pgp.PGPSignature.hashdata']
STUBS = ['EdDSAPub.verify -> symbolic boolean (signature oracle)', 'O17.4: PGPKey.is_expired / revocation_signatures / self_verified -> symbolic facts; check_management itself is the real code',
         'PGPKey.check_management / check_primitives -> SecurityIssues(<symbolic 11-bit value>) (O17.2)']
OUTSIDE = ['how check_management / validate_params compute the issue flags from real key parameters (they are stubbed to an arbitrary value)',
           'Revoked is treated as advisory, as the library does today (the property text lists expired, no self-signature, disabled, invalid)']
ASSUMPTIONS = ['disqualifying set D = {WrongSig, Expired, Disabled, Invalid, NoSelfSignature} as named in the property statement']

ALL = 0
for _m in SecurityIssues:
    ALL |= int(_m)
NBITS = ALL.bit_length()
for _v in range(2 ** NBITS):          # create every composite pseudo-member now: the enum caches them on first use,
    SecurityIssues(_v)                # which would otherwise make symbolic executions non-repeatable
D = int(SecurityIssues.WrongSig | SecurityIssues.Expired | SecurityIssues.Disabled | SecurityIssues.Invalid |
        SecurityIssues.NoSelfSignature)
ADV = ALL & ~D


def spec_fails(i):
    return (i & D) != 0


# ------------------------------------------------------------------------------------ O17.1 (Engine A)
def _fails_fn():
    return SecurityIssues.__dict__['causes_signature_verify_to_fail'].fget


def replay_o17_1(i, a):
    """native: disqualifying flag => fails; fails(i) => fails(i | advisory)"""
    f = lambda v: bool(SecurityIssues(v).causes_signature_verify_to_fail)
    if spec_fails(i) and not f(i):
        return False
    if f(i) and not f(i | (a & ADV)):
        return False
    if not spec_fails(i) and f(i) and i != 0:
        pass        # stricter than the property (advisory-only sets failing) is allowed
    return True


@ob('O17.1', 'monotonicity over all issue sets: any disqualifying flag => fails; fails(i) => fails(i | advisory)',
    'issue value i and advisory set a over all %d flag bits (2^%d x 2^%d pairs), Engine A from the property source' % (NBITS, NBITS, NBITS),
    engine='A')
def o17_1(tier):
    def build(tr):
        i, a = z3.Int('i'), z3.Int('a')
        pre = [i >= 0, i < 2 ** NBITS, a >= 0, a < 2 ** NBITS]
        from vlib.shims import and_const_term
        adv = and_const_term(a, ADV)
        # i | adv  as Int:  i + adv - (i & adv);  bits of adv are a subset of ADV, computed with an auxiliary j
        j = z3.Int('j')
        pre += [j >= 0, j < 2 ** NBITS]
        # j = i | adv, axiomatised bitwise through constant masks: for every bit b: bit_b(j) = bit_b(i) or bit_b(adv)
        for b in range(NBITS):
            bi, ba, bj = (i / 2 ** b) % 2, (adv / 2 ** b) % 2, (j / 2 ** b) % 2
            pre.append(bj == z3.If(z3.Or(bi == 1, ba == 1), 1, 0))
        fi = astsmt.to_bool(tr.ctx, tr.call_function(_fails_fn(), [i]))
        fj = astsmt.to_bool(tr.ctx, tr.call_function(_fails_fn(), [j]))
        dis = and_const_term(i, D) != 0
        claim = z3.And(z3.Implies(dis, fi), z3.Implies(fi, fj))
        return pre, claim, {'i': i, 'a': a}
    res = astsmt.check_claim(build, lambda v: 'replay_o17_1(%d, %d)' % (v['i'], v['a']), cross=(tier == 'thorough'), maxbits=NBITS)
    # translator validation: the encoding evaluated on concrete values must equal the real property on every value
    n = 0
    for v in range(2 ** NBITS):
        ctx = astsmt.Ctx(maxbits=NBITS)
        got = astsmt.Translator(ctx).call_function(_fails_fn(), [v])
        assert bool(got) == bool(SecurityIssues(v).causes_signature_verify_to_fail), v
        n += 1
    res['validated'] = n
    return res


# ------------------------------------------------------------------------------------ fixtures for Engine B
T0 = datetime.fromtimestamp(1_600_000_000, timezone.utc)
KEY = PGPKey.new(PubKeyAlgorithm.EdDSA, EllipticCurveOID.Ed25519, created=T0)
KEY.add_uid(PGPUID.new('a'), usage={KeyFlags.Sign, KeyFlags.Certify}, hashes=[HashAlgorithm.SHA256])
PUB = KEY.pubkey


class Oracle:
    answer = True
    calls = 0
    soundness = SecurityIssues.OK
    primitives = SecurityIssues.OK


def _verify(self, subj, sigbytes, hash_alg):
    Oracle.calls += 1
    return Oracle.answer


_REAL_ATTRS = {n: PGPKey.__dict__[n] for n in ('is_expired', 'self_verified', 'expires_at', 'check_management', 'check_primitives', 'revocation_signatures')}
_REAL_EDDSA_VERIFY = F.EdDSAPub.verify
# a real RSA key and signature for O17.6 (made before any stub is installed)
RSAKEY = PGPKey.new(PubKeyAlgorithm.RSAEncryptOrSign, 2048, created=T0)
RSAKEY.add_uid(PGPUID.new('r'), usage={KeyFlags.Sign, KeyFlags.Certify}, hashes=[HashAlgorithm.SHA256], created=T0)
RSASIG = RSAKEY.sign(b'doc', created=T0)
F.EdDSAPub.verify = _verify
_REAL_CHECK_MANAGEMENT = PGPKey.check_management
PGPKey.check_management = lambda self, self_verifying=False: Oracle.soundness
PGPKey.check_primitives = lambda self: Oracle.primitives


def mk_sig():
    sig = PGPSignature.new(SignatureType.BinaryDocument, PubKeyAlgorithm.EdDSA, HashAlgorithm.SHA256, KEY.fingerprint.keyid,
                           created=T0)
    sig._signature.signature.from_signer(b'\x01\x02')
    return sig


SIG = mk_sig()
SIGS = [mk_sig() for _ in range(3)]


MB = [SecurityIssues(0)] + [SecurityIssues(1 << b) for b in range(NBITS)]
PB = [SecurityIssues(0)] + [SecurityIssues(1 << b) for b in range(NBITS) if (ADV >> b) & 1]


@ob('O17.2', 'PGPKey.verify: a disqualifying issue on the key makes the result falsy whatever the crypto says; '
             'otherwise the result is truthy exactly when the crypto check succeeds; the signature is listed exactly once',
    'management issue m in {none, each single flag} (%d values) x primitive issue p in {none, each advisory flag} (%d values) x '
    'symbolic crypto answer; the full 2^%d closure of the predicate itself is O17.1' % (len(MB), len(PB), NBITS),
    cond_timeout={'q': 240, 't': 900})
def verify_branch(midx: int, pidx: int, ok: bool) -> bool:
    """
    pre: 0 <= midx < len(MB)
    pre: 0 <= pidx < len(PB)
    post: _
    """
    m, p = MB[midx], PB[pidx]
    Oracle.soundness = m
    Oracle.primitives = p
    Oracle.answer = ok
    res = PUB.verify(b'doc', SIG)
    good = list(res.good_signatures)
    bad = list(res.bad_signatures)
    if len(res) != 1 or len(good) + len(bad) != 1:
        return False
    truth = bool(res)
    if truth != (len(bad) == 0):
        return False
    if spec_fails(int(m) | int(p)):
        return not truth
    return truth == ok


class KeyFacts:
    expired = False
    revoked = False
    selfv = SecurityIssues.OK
    real_mgmt = False


def _mgmt(self, self_verifying=False):
    if KeyFacts.real_mgmt:
        return _REAL_CHECK_MANAGEMENT(self, self_verifying)
    return Oracle.soundness


PGPKey.check_management = _mgmt
PGPKey.is_expired = property(lambda self: KeyFacts.expired)
PGPKey.self_verified = property(lambda self: KeyFacts.selfv)
PGPKey.expires_at = property(lambda self: T0 if KeyFacts.expired else None)
_REAL_REVSIGS = PGPKey.revocation_signatures
PGPKey.revocation_signatures = property(lambda self: iter([object()]) if KeyFacts.revoked else iter([]))
DSIG = PGPSignature.new(SignatureType.DirectlyOnKey, PubKeyAlgorithm.EdDSA, HashAlgorithm.SHA256, KEY.fingerprint.keyid, created=T0)
DSIG._signature.signature.from_signer(bytes(range(64)))
SV = [SecurityIssues.OK, SecurityIssues.Invalid, SecurityIssues.NoSelfSignature, SecurityIssues.Disabled]


@ob('O17.4', 'the real issue aggregation (check_management / check_soundness) inside verify: an expired key, or one whose self-verification reports '
             'invalid / no self-signature / disabled, yields a falsy result whatever else holds - for third-party subjects and for the key verifying '
             'its own direct-key signature, revoked or not, right or wrong crypto answer',
    'expired, revoked, crypto answer: symbolic booleans; self-verification result from {OK, Invalid, NoSelfSignature, Disabled}; advisory primitive issue from %d values; '
    'subject in {document, the key itself (self-verifying path)}' % len(PB), cond_timeout={'q': 240, 't': 600})
def verify_real_aggregation(expired: bool, revoked: bool, svi: int, pidx: int, selfsubj: bool, ok: bool) -> bool:
    """
    pre: 0 <= svi < 4
    pre: 0 <= pidx < len(PB)
    post: _
    """
    KeyFacts.expired, KeyFacts.revoked, KeyFacts.selfv = expired, revoked, SV[svi]
    KeyFacts.real_mgmt = True
    Oracle.primitives = PB[pidx]
    Oracle.answer = ok
    try:
        res = PUB.verify(PUB, DSIG) if selfsubj else PUB.verify(b'doc', SIG)
    finally:
        KeyFacts.real_mgmt = False
        KeyFacts.expired = KeyFacts.revoked = False
        KeyFacts.selfv = SecurityIssues.OK
    truth = bool(res)
    bad = list(res.bad_signatures)
    if len(res) != 1 or truth != (len(bad) == 0):
        return False
    if expired or svi != 0:
        return not truth
    return truth == ok


class real_code:
    """context manager: the real PGPKey expiry / self-verification / aggregation code and the real EdDSA primitive instead of this module's stand-ins"""
    def __enter__(self):
        self.saved = {n: PGPKey.__dict__[n] for n in _REAL_ATTRS}
        self.saved_v = F.EdDSAPub.verify
        for n, v in _REAL_ATTRS.items():
            setattr(PGPKey, n, v)
        F.EdDSAPub.verify = _REAL_EDDSA_VERIFY

    def __exit__(self, *a):
        for n, v in self.saved.items():
            setattr(PGPKey, n, v)
        F.EdDSAPub.verify = self.saved_v
        return False


HOURS = ((3, 1), (1, 3), (30, 1), (1, 30), (13, 12), (12, 13), (300, 299), (2, 24 * 365))


def _real_expiry(age_h, life_h, weak):
    from datetime import timedelta
    with real_code():
        now = datetime.now(timezone.utc).replace(microsecond=0)
        born = now - timedelta(hours=age_h)
        k = PGPKey.new(PubKeyAlgorithm.EdDSA, EllipticCurveOID.Ed25519, created=born)
        k.add_uid(PGPUID.new('e'), usage={KeyFlags.Sign, KeyFlags.Certify}, hashes=[HashAlgorithm.SHA256], key_expiration=timedelta(hours=life_h), created=born)
        sig = k.sign(b'doc', hash=HashAlgorithm.SHA1 if weak else HashAlgorithm.SHA256)
        pub = k.pubkey
        res = pub.verify(b'doc', sig)
        expired = age_h >= life_h
        return bool(pub.is_expired) == expired and bool(res) == (not expired) and (pub.expires_at - born) == timedelta(hours=life_h)


@ob('O17.5', 'the real expiry test inside verify (no stand-ins, real Ed25519): a key whose lifetime has run out - by one hour or by months - makes a correct signature verify falsy, '
             'one that has not yet expired verifies truthy; with or without a merely advisory weakness (SHA-1); whatever the zone of the process',
    'key age / lifetime in hours by symbolic index from 8 pairs around the process-zone offset (11 h) and day boundaries; process zone UTC-11; each path concrete and native',
    cond_timeout={'q': 200, 't': 600})
def real_expiry(hi: int, weak: bool) -> bool:
    """
    pre: 0 <= hi < 8
    post: _
    """
    h = 0
    for k in range(8):
        if hi == k:
            h = k
    w = True if weak else False
    with native():
        return _real_expiry(HOURS[h][0], HOURS[h][1], w)


def _rsa_mutant(mi):
    from pgpy.packet.types import MPI
    s = int(RSASIG._signature.signature.md_mod_n)
    n = int(RSAKEY._key.keymaterial.n)
    klen = (n.bit_length() + 7) // 8
    mutants = (s, s + 256 ** klen, s + 0x102 * 256 ** klen, s ^ 1, s + 256 ** (klen + 3), (s + 1) % n)
    with real_code():
        sig = PGPSignature.from_blob(bytes(RSASIG))
        sig._signature.signature.md_mod_n = MPI(mutants[mi])
        sig._signature.update_hlen()
        sig = PGPSignature.from_blob(bytes(sig))
        if int(sig._signature.signature.md_mod_n) != mutants[mi]:
            return False
        try:
            res = RSAKEY.pubkey.verify(b'doc', sig)
        except Exception:
            return mi != 0
        good, bad = list(res.good_signatures), list(res.bad_signatures)
        if len(good) + len(bad) != 1:
            return False
        return bool(res) == (mi == 0) and (len(bad) == 1) == (mi != 0)


@ob('O17.6', 'a cryptographically wrong RSA signature is always bad (real RSA primitive): the genuine integer verifies, the same integer with extra high-order octets, '
             'with a flipped bit or incremented does not', 'mutation by symbolic index from {none, + 256^k, + 0x102 * 256^k, xor 1, + 256^(k+3), + 1 mod n} (k = modulus length); RSA-2048, SHA-256',
    cond_timeout={'q': 200, 't': 600})
def rsa_wrong_is_bad(mi: int) -> bool:
    """
    pre: 0 <= mi < 6
    post: _
    """
    m = 0
    for k in range(6):
        if mi == k:
            m = k
    with native():
        return _rsa_mutant(m)


@ob('O17.3', 'SignatureVerification coherence: every examined signature is listed exactly once as good or bad, '
             'truthy iff none is bad, a disqualified or wrong one is always bad; & accumulates',
    'n in 1..3 entries, each issue value from a 10-element basis (symbolic index), split point of & symbolic; one process per (n, i0 parity)',
    cond_timeout={'q': 240, 't': 900},
    partitions=[['n <= 2']] + [['n == 3', 'i0 // 2 == %d' % k] for k in range(5)])
def verdict_coherence(n: int, i0: int, i1: int, i2: int, split: int) -> bool:
    """
    pre: 1 <= n <= 3
    pre: 0 <= i0 < 10 and 0 <= i1 < 10 and 0 <= i2 < 10
    pre: n >= 2 or i1 == 0
    pre: n >= 3 or i2 == 0
    pre: 0 <= split <= n
    post: _
    """
    S = SecurityIssues
    basis = [S.OK, S.WrongSig, S.Expired, S.AsymmetricKeyLengthIsTooShort, S.Expired | S.AsymmetricKeyLengthIsTooShort,
             S.HashFunctionNotCollisionResistant, S.NoSelfSignature | S.InsecureCurve, S.Revoked,
             S.WrongSig | S.HashFunctionNotCollisionResistant, S.Disabled | S.Invalid | S.BrokenAsymmetricFunc]
    vals = [basis[i0]]
    if n >= 2:
        vals.append(basis[i1])
    if n >= 3:
        vals.append(basis[i2])
    a, b = SignatureVerification(), SignatureVerification()
    for k, v in enumerate(vals):
        (a if k < split else b).add_sigsubj(SIGS[k], PUB, b'doc', v)
    res = a & b
    if len(res) != n:
        return False
    good = [s.signature for s in res.good_signatures]
    bad = [s.signature for s in res.bad_signatures]
    for k, v in enumerate(vals):
        ing = sum(1 for s in good if s is SIGS[k])
        inb = sum(1 for s in bad if s is SIGS[k])
        if ing + inb != 1:
            return False
        if spec_fails(int(v)) and inb != 1:
            return False
        if int(v) == 0 and ing != 1:
            return False
    if len(good) + len(bad) != n:
        return False
    return bool(res) == (len(bad) == 0)


SANITY = ['real_expiry(%d, %s)' % (h, w) for h in range(8) for w in (True, False)] + ['rsa_wrong_is_bad(%d)' % m for m in range(6)] + ['replay_o17_1(%d, 0x3E8)' % i for i in (0, 1, 2, 2 | 256, 4, 16, 1024, 1024 | 512, 8, 32, 64)] + [
    'verify_branch(0, 0, True)', 'verify_branch(0, 0, False)', 'verify_branch(2, 3, True)', 'verify_branch(2, 4, True)', 'verify_branch(9, 0, True)',
    'verify_real_aggregation(True, False, 0, 0, True, True)', 'verify_real_aggregation(True, True, 0, 2, False, True)', 'verify_real_aggregation(False, True, 0, 0, True, True)',
    'verify_real_aggregation(False, False, 2, 0, False, True)', 'verify_real_aggregation(False, False, 0, 1, True, False)', 'verdict_coherence(3, 0, 1, 4, 1)', 'verdict_coherence(1, 0, 0, 0, 0)', 'verdict_coherence(2, 3, 5, 0, 3)']
