"""C14 - transferable keys survive export and import with their structure intact (DESIGN.md 3/C14).

Symbolic *shape*, concrete packet contents: a packet sequence is assembled from a menu by symbolic indices, imported with the real
PGPKey.from_blob, and compared with a 20-line reference grouping; then exported, re-imported and compared again."""
import copy
import warnings
from datetime import datetime, timezone

from vlib.h import ob, native
from harness.sigfix import *          # noqa
from harness.c08 import split_one
from pgpy import PGPKey, PGPUID, PGPSignature
from pgpy.packet import Packet
import pgpy.constants as K

install_oracle()
warnings.simplefilter('ignore')

FUNCTIONS_ENCODED = ['pgpy.pgp.PGPKey.parse', 'pgpy.pgp.PGPKey.__or__', 'pgpy.pgp.PGPUID.__or__', 'pgpy.pgp.PGPKey.__bytearray__', 'pgpy.pgp.PGPKey.__copy__', 'pgpy.pgp.PGPUID.__copy__',
                     'pgpy.pgp.PGPSignature.__copy__', 'pgpy.pgp.PGPSignature.exportable', 'pgpy.types.SorteDeque.insort']
STUBS = ['signatures are made by the real API with the primitive replaced by the oracle (their integers are not checked here: "still verifying" is C01/C15)']
OUTSIDE = ['packet contents are concrete (two primaries, two user ids, one attribute, two subkeys, eleven signatures); sequences longer than the stated bound',
           'armored form of the symbolic shapes (O14.3 covers the fixture key only; base64 is C code)', 'embedded cross-signatures (the menu\'s binding signatures carry none)']
ASSUMPTIONS = ['RFC 4880 11.1: a signature belongs to the key / user id / attribute / subkey packet that most recently precedes it; trust packets are local and ignored']

T1 = datetime.fromtimestamp(1_600_000_001, timezone.utc)


def _pkt_bytes(obj):
    return bytes(obj.__bytearray__())


def unknown_alg_sig(sigbytes):
    """the same signature packet with its public-key algorithm octet set to an id PGPy has no signature class for (ElGamal, 16): kept opaque"""
    b = bytearray(sigbytes)
    hl = 2 if b[1] < 192 else 3
    b[hl + 2] = 16
    return bytes(b)


def _newlen(n):
    if n < 192:
        return bytes([n])
    if n < 8384:
        return bytes([((n - 192) >> 8) + 192, (n - 192) & 0xFF])
    return bytes([255]) + n.to_bytes(4, 'big')


def rebuild_sig(sigbytes, transform):
    """the same v4 signature packet with its hashed subpacket area replaced by transform(area) (lengths fixed up); the integers are not valid
    any more - C14 does not verify them"""
    b = bytes(sigbytes)
    hl = 2 if b[1] < 192 else (3 if b[1] < 224 else 6)
    body = b[hl:]
    hlen = body[4] * 256 + body[5]
    area = transform(body[6:6 + hlen])
    nb = body[:4] + bytes([len(area) // 256, len(area) % 256]) + area + body[6 + hlen:]
    return bytes([0xC2]) + _newlen(len(nb)) + nb


def long_form_first_subpacket(area):
    """first subpacket's length re-encoded in the five-octet form (legal, not minimal: what another producer may emit)"""
    n = area[0]
    assert n < 192
    return bytes([255, 0, 0, 0, n]) + area[1:]


def make_menu():
    A = new_key('alice', sub=True)
    B = new_key('bob', sub=False)
    subA = list(A.subkeys.values())[0]
    sub2 = PGPKey.new(PubKeyAlgorithm.EdDSA, EllipticCurveOID.Ed25519, created=T0)
    A.add_subkey(sub2, usage={KeyFlags.Authentication}, created=T0)
    uidA = A.userids[0]
    uid2 = PGPUID.new('second id')
    A.add_uid(uid2, usage={KeyFlags.Sign}, hashes=[HashAlgorithm.SHA256], created=T0)
    img = b'\xff\xd8\xff\xe0\x00\x10JFIF\x00' + bytes(16)
    att = PGPUID.new(bytearray(img))
    A.add_uid(att, created=T0)
    pubA, pubB = A.pubkey, B.pubkey
    selfcert = uidA.selfsig
    third = B.certify(pubA.userids[0], created=T0, hash=HashAlgorithm.SHA256, exportable=True)
    local = B.certify(pubA.userids[0], created=T1, hash=HashAlgorithm.SHA256, exportable=False)
    plain = B.certify(pubA.userids[0], created=T1, hash=HashAlgorithm.SHA256)
    binding = [s for s in subA._signatures if s.type == SignatureType.Subkey_Binding][0]
    direct = A.certify(A, created=T0, hash=HashAlgorithm.SHA256)
    rev = A.revoke(uid2, created=T1, hash=HashAlgorithm.SHA256)
    revoker_s = A.revoker(pubB, created=T1, hash=HashAlgorithm.SHA256, sensitive=True)
    # a user id that is not valid UTF-8 (kept through the charmap fallback) and a signature by an unknown public-key algorithm
    odd_uid = bytes([0xB4, 3, 0xFF, 0xFE, 0x58])
    raw = bytearray(_pkt_bytes(plain))
    opaque_sig = None
    pub_sub1 = [k for k in pubA.subkeys.values()][0]
    pub_sub2 = [k for k in pubA.subkeys.values()][1]
    trust = bytes([0xCC, 2, 0, 5])              # tag 12, as GnuPG keyring files have them
    menu = [
        ('uid', _pkt_bytes(uidA._uid)), ('uid', _pkt_bytes(uid2._uid)), ('uid', _pkt_bytes(att._uid)),
        ('sub', _pkt_bytes(pub_sub1._key)), ('sub', _pkt_bytes(pub_sub2._key)), ('trust', trust),
        ('sig', _pkt_bytes(selfcert)), ('sig', _pkt_bytes(third)), ('sig', _pkt_bytes(local)), ('sig', _pkt_bytes(plain)),
        ('sig', _pkt_bytes(binding)), ('sig', _pkt_bytes(direct)), ('sig', _pkt_bytes(rev)),
        ('key', _pkt_bytes(pubB._key)),
        ('sig', _pkt_bytes(revoker_s)), ('uid', odd_uid), ('sig', unknown_alg_sig(_pkt_bytes(plain))),
        # a certification whose hashed area is not minimally encoded, and a revocation marked non-exportable (as GnuPG's lsign + revsig leaves them)
        ('sig', rebuild_sig(_pkt_bytes(third), long_form_first_subpacket)), ('sig', rebuild_sig(_pkt_bytes(rev), lambda a: bytes([2, 4, 0]) + a)),
    ]
    return _pkt_bytes(pubA._key), menu, str(pubA.fingerprint), str(pubB.fingerprint), A


PRIMARY_A, MENU, FPR_A, FPR_B, A_KEY = make_menu()
NM = len(MENU)
NONEXPORTABLE = {MENU[8][1], MENU[18][1]}


def reference_grouping(seq):
    """[(component octets, [signature octets...]), ...] per key; a new 'key' packet starts a new key; trust ignored"""
    keys = [[(PRIMARY_A, [])]]
    for kind, octs in seq:
        if kind == 'trust':
            continue
        if kind == 'key':
            keys.append([(octs, [])])
        elif kind == 'sig':
            keys[-1][-1][1].append(octs)
        else:
            keys[-1].append((octs, []))
    return keys


def observed_grouping(key):
    comps = [(_pkt_bytes(key._key), [_pkt_bytes(s) for s in key._signatures if not s.embedded])]
    for uid in key._uids:
        comps.append((_pkt_bytes(uid._uid), [_pkt_bytes(s) for s in uid._signatures]))
    for sk in key._children.values():
        comps.append((_pkt_bytes(sk._key), [_pkt_bytes(s) for s in sk._signatures if not s.embedded]))
    return comps


def same(ref, obs, exported_only=False):
    """equal as: same first component, same multiset of (component, multiset of signatures); duplicates of a component packet are merged by PGPy's
    subkey map (same key id) - the menu never repeats a subkey"""
    def norm(c):
        out = []
        for comp, sigs in c:
            ss = sorted(s for s in sigs if not (exported_only and s in NONEXPORTABLE))
            out.append((comp, tuple(ss)))
        return out
    a, b = norm(ref), norm(obs)
    return a[0] == b[0] and sorted(a[1:]) == sorted(b[1:])


def pick_seq(idx):
    seq = []
    for i in idx:
        for k in range(NM):
            if i == k:
                seq.append(MENU[k])
    return seq


def valid_sequence(seq):
    """the menu allows ungrammatical orders; keep those RFC 4880 11.1 allows loosely: no repeated subkey / uid packet (PGPy keys its subkey map
    by key id and duplicates are a different question), nothing but signatures/trust between key B and its (absent) identities is fine"""
    seen = set()
    for kind, octs in seq:
        if kind in ('uid', 'sub', 'key'):
            if octs in seen:
                return False
            seen.add(octs)
    return True


def check_shape(idx):
    seq = pick_seq(idx)
    if not valid_sequence(seq):
        return True
    blob = PRIMARY_A + b''.join(o for _, o in seq)
    key, others = PGPKey.from_blob(blob)
    ref = reference_grouping(seq)
    got_keys = [key] + [k for k in others.values() if k is not key]
    if len(got_keys) != len(ref):
        return False
    if str(key.fingerprint) != FPR_A:
        return False
    for r, k in zip(ref, got_keys):
        if not same(r, observed_grouping(k)):
            return False
    # export / import round trip of the first key: non-exportable signatures, and only those, are dropped
    out = bytes(key.__bytearray__())
    back, rest = PGPKey.from_blob(out)
    if len([k for k in rest.values() if k is not back]) != 0 or str(back.fingerprint) != FPR_A:
        return False
    if not same(ref[0], observed_grouping(back), exported_only=True):
        return False
    # no non-exportable signature octets in the export, every exportable one present
    for comp, sigs in ref[0]:
        for s in sigs:
            if (s in out) != (s not in NONEXPORTABLE):
                return False
    # a copy exports identically; a second export / import keeps the structure (NOT necessarily the octets: an identity left without any exportable
    # signature changes its place among the identities on re-import, which the property does not forbid - found by the 4-packet sequences)
    if bytes(copy.copy(key).__bytearray__()) != out:
        return False
    back2, rest2 = PGPKey.from_blob(bytes(back.__bytearray__()))
    if len([k for k in rest2.values() if k is not back2]) != 0:
        return False
    return same(ref[0], observed_grouping(back2), exported_only=True)


@ob('O14.1', 'import attaches every signature to the component that precedes it, ignores trust packets, splits a second primary key off; export omits exactly the '
             'signatures marked non-exportable; re-import gives the same structure; a copy exports identically',
    'packet sequence after the primary key: 1..3 (quick) / 1..4 (thorough) packets drawn by symbolic index from a %d-element menu (2 user ids, attribute, 2 subkeys, trust packet, '
    '11 signatures incl. exportable absent / 1 / 0, a sensitive designated-revoker signature, one by an unknown algorithm, one with a non-minimal subpacket length in the hashed area, a non-exportable revocation, equal and differing creation times; a non-UTF-8 user id; second primary key)' % NM,
    cond_timeout={'q': 280, 't': 1500}, path_timeout=120,
    partitions={'q': [['n <= 2']] + [['n == 3', 'i0 == %d' % a, 'i1 %% 2 == %d' % b] for a in range(NM) for b in range(2)],
                't': [['n <= 2']] + [['n == 3', 'i0 == %d' % a] for a in range(NM)] + [['n == 4', 'i0 == %d' % a, 'i1 == %d' % b] for a in range(NM) for b in range(NM)]})
def key_shape(n: int, i0: int, i1: int, i2: int, i3: int) -> bool:
    """
    pre: 1 <= n <= 4
    pre: 0 <= i0 < NM and 0 <= i1 < NM and 0 <= i2 < NM and 0 <= i3 < NM
    pre: n >= 2 or i1 == 0
    pre: n >= 3 or i2 == 0
    pre: n >= 4 or i3 == 0
    post: _
    """
    idx = [i0, i1, i2, i3]
    out = []
    for j in range(4):
        if j < n:
            for k in range(NM):
                if idx[j] == k:
                    out.append(k)          # a concrete int per path
    with native():                         # contents are concrete: the key parser / exporter run as in production
        return check_shape(out)


@ob('O14.2', 'a signature packet by a public-key algorithm PGPy has no signature class for keeps its integers, and only its own octets, on import, copy and export '
             '(was finding KF-C14-opaque-signature, repaired)',
    'any one menu packet followed by such a signature followed by any one menu packet', cond_timeout={'q': 250, 't': 600}, partitions=[['i0 %% 4 == %d' % k] for k in range(4)])
def key_shape_opaque_sig(i0: int, i2: int) -> bool:
    """
    pre: 0 <= i0 < NM and 0 <= i2 < NM
    post: _
    """
    out = []
    for sym in (i0, i2):
        for k in range(NM):
            if sym == k:
                out.append(k)
    with native():
        return check_shape([out[0], 16, out[1]])


# ------------------------------------------------------------------------------------ O14.3 armored form
from pgpy.types import Armorable as _Arm
CRCS = (0, 1, 0xFF, 0x100, 0xFFFF, 0x10000, 0xABCDEF, 0xFFFFFF, None)
_REAL_CRC24 = _Arm.__dict__['crc24']


def _armored_case(ci, private):
    """export / import through the armored form with the CRC-24 of the payload forced to a chosen value (None: the real one): the value is what it is -
    one key in 256 has a checksum with a leading zero octet"""
    forced = CRCS[ci]
    if forced is not None:
        _Arm.crc24 = staticmethod(lambda data: forced)
    try:
        key = A_KEY if private else A_KEY.pubkey
        text = str(key)
        lines = text.split('\n')
        crcline = [l for l in lines if l.startswith('=')]
        if len(crcline) != 1 or len(crcline[0]) != 5 or any(len(l) > 76 for l in lines):
            return False
        back, rest = PGPKey.from_blob(text)
        others = [k for k in rest.values() if k is not back]
        return not others and bytes(back.__bytearray__()) == bytes(key.__bytearray__()) and str(back.fingerprint) == FPR_A and back.is_public == key.is_public
    finally:
        _Arm.crc24 = _REAL_CRC24


@ob('O14.3', 'the armored export of a key imports to the same key whatever the CRC-24 of its octets happens to be (leading zero octets included): the checksum line is always '
             'four radix-64 characters', 'CRC-24 forced by symbolic index from {0, 1, FF, 100, FFFF, 10000, ABCDEF, FFFFFF, the real value}; public or private key; native per path',
    cond_timeout={'q': 200, 't': 600})
def armored_roundtrip_crc(ci: int, private: bool) -> bool:
    """
    pre: 0 <= ci < 9
    post: _
    """
    c = 0
    for k in range(9):
        if ci == k:
            c = k
    pv = True if private else False
    with native():
        return _armored_case(c, pv)


SANITY = ['armored_roundtrip_crc(%d, %s)' % (c, p) for c in range(9) for p in (True, False)] + ['key_shape(1, 0, 0, 0, 0)', 'key_shape(2, 0, 6, 0, 0)', 'key_shape(3, 0, 6, 7, 0)', 'key_shape(3, 0, 8, 7, 0)', 'key_shape(4, 0, 6, 3, 10)', 'key_shape(4, 5, 0, 5, 6)',
          'key_shape(3, 13, 0, 6, 0)', 'key_shape(4, 0, 6, 13, 7)', 'key_shape(4, 1, 12, 9, 8)', 'key_shape(2, 11, 2, 0, 0)', 'key_shape(4, 3, 10, 4, 10)', 'key_shape(3, 6, 7, 8, 0)', 'key_shape(1, 14, 0, 0, 0)', 'key_shape(2, 15, 6, 0, 0)', 'key_shape(2, 1, 8, 0, 0)', 'key_shape(2, 0, 17, 0, 0)', 'key_shape(2, 1, 18, 0, 0)', 'key_shape(3, 0, 18, 17, 0)', 'key_shape(2, 0, 16, 0, 0)', 'key_shape(3, 3, 16, 6, 0)', 'key_shape_opaque_sig(13, 0)']
