"""C18 - fingerprints and key ids are the RFC 4880 values and are stable (DESIGN.md 3/C18)."""
import warnings

from vlib.h import ob, native
from harness import encfix
from harness.encfix import _Sha
from harness.c08 import pack, pub_body, OID_ED, OID_P256, OID_CV
from pgpy.packet import Packet
from pgpy.types import Fingerprint
import pgpy.packet.packets as P
import pgpy.packet.fields as F
import pgpy.constants as K
from pgpy import PGPKey, PGPUID, PGPMessage
from specs import rfc4880_sig as R
from harness import sigfix
import copy as _copy



def _mk_keys():
    """keys for O18.4, made per path under the forced digest (self-signatures name the forced ids)"""
    signer = sigfix.new_key('signer', sub=False)
    enc = PGPKey.new(K.PubKeyAlgorithm.EdDSA, K.EllipticCurveOID.Ed25519, created=sigfix.T0)
    enc.add_uid(PGPUID.new('enc'), usage={K.KeyFlags.Sign, K.KeyFlags.Certify}, hashes=[K.HashAlgorithm.SHA256], ciphers=[K.SymmetricKeyAlgorithm.AES128],
                compression=[K.CompressionAlgorithm.Uncompressed], created=sigfix.T0)
    enc.add_subkey(PGPKey.new(K.PubKeyAlgorithm.ECDH, K.EllipticCurveOID.Curve25519, created=sigfix.T0), usage={K.KeyFlags.EncryptCommunications}, created=sigfix.T0)
    # a certify-only primary that delegates signing to a subkey made one second later (so that it gets its own forced digest)
    deleg = PGPKey.new(K.PubKeyAlgorithm.EdDSA, K.EllipticCurveOID.Ed25519, created=sigfix.T0)
    deleg.add_uid(PGPUID.new('deleg'), usage={K.KeyFlags.Certify}, hashes=[K.HashAlgorithm.SHA256], created=sigfix.T0)
    deleg.add_subkey(PGPKey.new(K.PubKeyAlgorithm.EdDSA, K.EllipticCurveOID.Ed25519, created=T0_PLUS1), usage={K.KeyFlags.Sign}, created=T0_PLUS1)
    return signer, enc, deleg


from datetime import datetime as _dt, timezone as _tz
T0_PLUS1 = _dt.fromtimestamp(1_600_000_001, _tz.utc)

warnings.simplefilter('ignore')

FUNCTIONS_ENCODED = ['pgpy.pgp.PGPKey._sign (issuer subpackets)', 'pgpy.pgp.PGPKey.encrypt (recipient key id)', 'pgpy.packet.fields.OpaquePubKey', 'pgpy.packet.packets.PubKeyV4.fingerprint', 'pgpy.packet.fields.*Pub.publen / *Priv.publen', 'pgpy.packet.packets.PubKeyV4.__bytearray__',
                     'pgpy.packet.packets.PrivKeyV4.pubkey', 'pgpy.packet.packets.PubKeyV4.parse', 'pgpy.packet.packets.PrivKeyV4.parse',
                     'pgpy.types.Fingerprint.__new__ / keyid / shortid / __eq__ / __hash__']
STUBS = ['SHA-1 (hashlib in pgpy.packet.packets) -> recorder: the harness compares the octets FED to the hash with 99 || len2 || exported public body']
OUTSIDE = ['creation times as symbolic values: the time codec is two C calls (calendar.timegm(datetime.timetuple())); O18.1-tz covers 4 zones x 6 boundary instants only',
           'SHA-1 itself', 'key material beyond the stated bounds (integers below 2^32, EC point boundary octets)',
           'ids written by sign / encrypt for keys other than Ed25519 signer / Curve25519 recipient (O18.4 forces the digest value, the id fields do not depend on the algorithm)']
ASSUMPTIONS = ['RFC 4880 12.2: fingerprint = SHA-1(0x99 || two-octet length || public-key packet body starting at the version octet); key id = low 64 bits']


class Rec(_Sha):
    log = []

    def __init__(self, data=b''):
        super().__init__(data)
        Rec.log.append(self)

    forced = None          # O18.4: {(public-key algorithm octet, last creation-time octet): 40 hex digits} - the digest value becomes a per-path choice

    def hexdigest(self):
        if Rec.forced is not None:
            return Rec.forced[(self.data[8], self.data[7])]
        return '0123456789ABCDEF0123456789ABCDEF01234567'       # (rendering 20 symbolic octets as hex is C code: the value is not what is studied)


class _HS:
    @staticmethod
    def new(name, data=b''):
        return Rec(data)


P.hashlib = _HS


def fed_for(pkt):
    Rec.log = []
    fp = pkt.fingerprint
    return Rec.log[-1].data, fp


def body_of(pkt):
    out = bytes(pkt.__bytearray__())
    return out[len(pkt.header):]


def expect(pubbody):
    n = len(pubbody)
    return b'\x99' + bytes([n // 256, n % 256]) + pubbody


def rsa_pub_material(nbits, n0, n3, ebits, e0, e2):
    eb = (ebits + 7) // 8
    return bytes([0, nbits, n0, 7, 9, n3]) + bytes([0, ebits]) + bytes([e0, 0, e2])[:eb]


@ob('O18.1-rsa', 'RSA keys: the octets hashed for the fingerprint are 99 || len2 || exported public packet body - for a foreign public key (also with '
                 'leading-zero integers), for the secret key packet carrying the same material, and for the public packet derived from it',
    'declared bit counts n in {25,31,32}, e in {1,16,17}; first/last octets of n and e symbolic; secret integers fixed; tag public/secret, primary/sub',
    cond_timeout={'q': 280, 't': 900}, flags=('symmpi',), partitions=[['secret'], ['not secret']])
def fpr_rsa(secret: bool, sub: bool, nbits: int, n0: int, n3: int, ebits: int, e0: int, e2: int) -> bool:
    """
    pre: nbits in (25, 31, 32)
    pre: ebits in (1, 16, 17)
    pre: 0 <= n0 < 256 and 0 <= n3 < 256 and 0 <= e0 < 256 and 0 <= e2 < 256
    post: _
    """
    nb_c, eb_c = 32, 17
    for k in (25, 31, 32):
        if nbits == k:
            nb_c = k
    for k in (1, 16, 17):
        if ebits == k:
            eb_c = k
    mat = rsa_pub_material(nb_c, n0, n3, eb_c, e0, e2)
    if not secret:
        raw = pack(14 if sub else 6, pub_body(1, mat), 0)
    else:
        sec = bytes([0, 8, 0x81, 0, 8, 0x83, 0, 8, 0x85, 0, 8, 0x87])
        raw = pack(7 if sub else 5, pub_body(1, mat) + b'\x00' + sec + b'\x02\x10', 0)
    try:
        pkt = Packet(bytearray(raw))
    except Exception:
        return True
    if not secret:
        fed, fp = fed_for(pkt)
        return fed == expect(body_of(pkt))
    pub = pkt.pubkey()
    fed_s, fp_s = fed_for(pkt)
    fed_p, fp_p = fed_for(pub)
    return fed_s == expect(body_of(pub)) and fed_p == fed_s


@ob('O18.1-ec', 'elliptic-curve keys (EdDSA, ECDSA P-256, ECDH Curve25519 with KDF parameters): hashed octets = 99 || len2 || exported public body, public and secret form',
    'first and last coordinate octet from {00,01,80,FF}; KDF hash/cipher from 3 x 3; public or unprotected secret packet', cond_timeout={'q': 280, 't': 900}, flags=('symmpi',),
    partitions=[['kind == %d' % k] for k in range(3)])
def fpr_ec(kind: int, secret: bool, p0: int, p1: int, kh: int, kc: int) -> bool:
    """
    pre: 0 <= kind < 3
    pre: 0 <= p0 < 4 and 0 <= p1 < 4
    pre: 0 <= kh < 3 and 0 <= kc < 3
    post: _
    """
    vals = (0x00, 0x01, 0x80, 0xFF)
    q = [0, 0]
    for j, sym in enumerate((p0, p1)):
        for k in range(4):
            if sym == k:
                q[j] = vals[k]
    if kind == 0:
        mat, alg = OID_ED + bytes([1, 7]) + b'\x40' + bytes([q[0]]) + bytes(range(30)) + bytes([q[1]]), 22
    elif kind == 1:
        mat, alg = OID_P256 + bytes([2, 3]) + b'\x04' + bytes([q[0]]) + bytes(range(62)) + bytes([q[1]]), 19
    else:
        mat, alg = OID_CV + bytes([1, 7]) + b'\x40' + bytes([q[0]]) + bytes(range(30)) + bytes([q[1]]) + bytes([3, 1, (8, 9, 10)[kh], (7, 8, 9)[kc]]), 18
    if not secret:
        pkt = Packet(bytearray(pack(6, pub_body(alg, mat), 0)))
        fed, fp = fed_for(pkt)
        return fed == expect(body_of(pkt))
    sec = bytes([0, 255]) + bytes(range(1, 33))
    raw = pack(5, pub_body(alg, mat) + b'\x00' + sec + b'\x00\x00', 0)
    pkt = Packet(bytearray(raw))
    pub = pkt.pubkey()
    fed_s, fp_s = fed_for(pkt)
    fed_p, fp_p = fed_for(pub)
    return fed_s == expect(body_of(pub)) and fed_p == fed_s


@ob('O18.1-dsa-elg', 'DSA and ElGamal keys: hashed octets = 99 || len2 || exported public body (four / three integers with leading zero bits)',
    'integers of 1..2 octets with symbolic bit counts and octets; public packets', cond_timeout={'q': 280, 't': 900}, flags=('symmpi',), partitions=[['dsa'], ['not dsa']])
def fpr_dsa_elg(dsa: bool, b0: int, b1: int, v0: int, v1: int, v2: int, v3: int) -> bool:
    """
    pre: 1 <= b0 <= 8 and 9 <= b1 <= 16
    pre: 0 <= v0 < 256 and 0 <= v1 < 256 and 0 <= v2 < 256 and 0 <= v3 < 256
    post: _
    """
    m_small = bytes([0, b0, v0])
    m_big = bytes([0, b1, v1, v2])
    if dsa:
        mat, alg = m_big + m_small + bytes([0, 8, v3]) + m_big, 17
    else:
        mat, alg = m_big + m_small + bytes([0, 8, v3]), 16
    pkt = Packet(bytearray(pack(6, pub_body(alg, mat), 0)))
    fed, fp = fed_for(pkt)
    return fed == expect(body_of(pkt))


from datetime import datetime, timezone, timedelta
ZONES = (timezone.utc, timezone(timedelta(hours=2)), timezone(timedelta(hours=-5, minutes=-30)), timezone(timedelta(hours=14)), None)
STAMPS = (0, 1, 1_600_000_000, 2 ** 31 - 1, 2 ** 31, 2 ** 32 - 1)


@ob('O18.1-opaque', 'keys of a public-key algorithm PGPy has no class for (kept as opaque octets): hashed octets = 99 || len2 || exported public body, also for a copy',
    'algorithm 21 (X9.42 Diffie-Hellman); 2..4 symbolic material octets; primary or subkey packet', cond_timeout={'q': 200, 't': 600})
def fpr_opaque(sub: bool, mat: bytes) -> bool:
    """
    pre: 2 <= len(mat) <= 4
    post: _
    """
    raw = pack(14 if sub else 6, pub_body(21, bytes(mat)), 0)
    try:
        pkt = Packet(bytearray(raw))
    except Exception:
        return True
    body = body_of(pkt)
    if body != pub_body(21, bytes(mat)):
        return False
    fed, _ = fed_for(pkt)
    fed_c, _ = fed_for(_copy.copy(pkt))
    return fed == expect(body) and fed_c == fed


@ob('O18.1-tz', 'creation times given as zone-aware datetimes whose local rendering differs from UTC: the hashed octets are still 99 || len2 || exported body '
                '(fingerprint and export agree on the four time octets), and those octets are the Unix time', 'zone by symbolic index from {UTC, +02:00, -05:30, +14:00, naive (= UTC) in a process whose zone is UTC-11} x instant from 6 boundary values; '
                'RSA material with 2 symbolic octets; key packet built through the API (created=...)', cond_timeout={'q': 280, 't': 600}, flags=('symmpi',))
def fpr_timezone(zi: int, si: int, n0: int, e0: int) -> bool:
    """
    pre: 0 <= zi < 5
    pre: 0 <= si < 6
    pre: 128 <= n0 < 256 and 1 <= e0 < 256
    post: _
    """
    from pgpy.packet.packets import PubKeyV4
    from pgpy.packet.types import MPI
    from pgpy.constants import PubKeyAlgorithm
    zone, stamp = ZONES[0], STAMPS[0]
    for k in range(5):
        if zi == k:
            zone = ZONES[k]
    for k in range(6):
        if si == k:
            stamp = STAMPS[k]
    pk = PubKeyV4()
    pk.pkalg = PubKeyAlgorithm.RSAEncryptOrSign
    pk.keymaterial.n = MPI(n0 * 2 ** 24 + 0x070903)
    pk.keymaterial.e = MPI(e0)
    if zone is None:
        try:
            pk.created = datetime.fromtimestamp(stamp, timezone.utc).replace(tzinfo=None)    # naive: PGPy takes it as UTC (with a warning); the process zone is not UTC
        except (TypeError, ValueError):
            return True                                                                    # (refusing naive values would be fine, too)
    else:
        pk.created = datetime.fromtimestamp(stamp, zone)
    pk.update_hlen()
    fed, fp = fed_for(pk)
    body = body_of(pk)
    want_time = bytes([(stamp // 16777216) % 256, (stamp // 65536) % 256, (stamp // 256) % 256, stamp % 256])
    return fed == expect(body) and body[1:5] == want_time


HEX = '0123456789ABCDEF0123456789abcdef01234567'


@ob('O18.2', 'Fingerprint: key id = last 16 hex digits, short id = last 8; spaces and letter case do not matter for equality and hashing',
    'a fixed 40-digit value written with three spaces at positions chosen by symbolic index from {0,1,8,20,39,40} and symbolic case', cond_timeout={'q': 200, 't': 600})
def fingerprint_forms(p0: int, p1: int, p2: int, lower: bool) -> bool:
    """
    pre: 0 <= p0 < 6 and 0 <= p1 < 6 and 0 <= p2 < 6
    post: _
    """
    pos = (0, 1, 8, 20, 39, 40)
    q = [0, 0, 0]
    for j, sym in enumerate((p0, p1, p2)):
        for k in range(6):
            if sym == k:
                q[j] = pos[k]
    p0, p1, p2 = q
    base = HEX.upper()
    s = base.lower() if lower else base
    cuts = sorted([p0, p1, p2])
    spaced = s[:cuts[0]] + ' ' + s[cuts[0]:cuts[1]] + ' ' + s[cuts[1]:cuts[2]] + ' ' + s[cuts[2]:]
    f, g = Fingerprint(base), Fingerprint(spaced)
    return (f == g and hash(f) == hash(g) and g.keyid == base[-16:] and g.shortid == base[-8:] and (lower or f == spaced) and
            (g == base[-16:]) and (g == base[-8:]) and not (g == base[-15:] + '0'))


FPS = ('0123456789ABCDEF0123456789ABCDEF01234567', 'AAAAAAAAAAAAAAAAAAAAAAAA0011223344556677', 'BBBBBBBBBBBBBBBBBBBBBBBB0F00000000000001',
       '00000000000000000000000000000000000000FF', 'FFFFFFFFFFFFFFFFFFFFFFFFFFFFFFFFFFFFFF00', '00FFEEDDCCBBAA99887766554433221100000000', '0000000000000000000000000000000000000000')


@ob('O18.3', 'the fingerprint is the same for a passphrase-protected secret key packet, the public packet derived from it, a copy of either and the re-imported export '
             '(none of them hashes anything but the public fields)',
    'RSA / DSA / EdDSA secret key packets protected with S2K usage 254/255, specifier {0,1,3, GNU dummy}; 4 symbolic octets in salt / count / IV / encrypted octets', cond_timeout={'q': 280, 't': 600}, flags=('symmpi',),
    partitions=[['ai == %d' % a] for a in range(3)])
def fpr_protected(usage: int, spec: int, aes: bool, ai: int, x0: int, x1: int, x2: int, x3: int) -> bool:
    """
    pre: usage in (254, 255)
    pre: spec in (0, 1, 3, 101)
    pre: 0 <= ai < 3
    pre: 0 <= x0 < 256 and 0 <= x1 < 256 and 0 <= x2 < 256 and 0 <= x3 < 256
    post: _
    """
    if ai == 0:
        alg, pubmat = 1, bytes([0, 32, 0xC1, 2, 3, 5]) + bytes([0, 17, 1, 0, 1])
    elif ai == 1:
        alg, pubmat = 17, bytes([0, 16, 0x81, 2]) + bytes([0, 8, 0x83]) + bytes([0, 8, 0x85]) + bytes([0, 16, 0x87, 9])
    else:
        alg, pubmat = 22, OID_ED + bytes([1, 7]) + b'\x40' + bytes(range(32))
    body = pub_body(alg, pubmat) + bytes([usage])
    if spec == 101:
        body += bytes([0, 101]) + b'\x00GNU' + bytes([1])
    else:
        body += bytes([7 if aes else 3, spec, 2])
        if spec >= 1:
            body += bytes([x0, 1, 2, 3, 4, 5, 6, 7])
        if spec == 3:
            body += bytes([x1])
        body += bytes([x2]) + bytes(15 if aes else 7)
        body += bytes([x3, 9, 8, 7, 6, 5, 4, 3, 2, 1] * 3)
    try:
        pkt = Packet(bytearray(pack(5, body, 0)))
    except Exception:
        return True
    pub = pkt.pubkey()
    want = expect(body_of(pub))
    if want != expect(pub_body(alg, pubmat)):
        return False
    for obj in (pkt, pub, _copy.copy(pkt), _copy.copy(pub), Packet(bytearray(bytes(pkt.__bytearray__()))), Packet(bytearray(bytes(pub.__bytearray__())))):
        fed, _ = fed_for(obj)
        if fed != want:
            return False
    return True


def _stub_ecdh_encrypt(cls, pk, *args):
    ct = cls()
    ct.p = F.ECPoint.from_values(255, F.ECPointFormat.Native, bytes(range(32)))
    ct.c = bytearray(b'\x07' * 8)
    return ct


@ob('O18.4', 'the ids PGPy writes are the fingerprint / its low 64 bits, octet for octet: issuer and issuer-fingerprint subpackets of a signature, the key id of the one-pass packet, '
             'and the recipient key id of a public-key session-key packet (of the encryption subkey, not the primary)',
    'SHA-1 replaced by a stand-in whose value is chosen by symbolic index from 7 adversarial 160-bit values (leading / trailing zero octets and nibbles in fingerprint and key id), '
    'independently for the signer / primary, for the encryption subkey and for a signing subkey a certify-only primary delegates to', cond_timeout={'q': 280, 't': 600})
def ids_written(fa: int, fb: int, fc: int = 1) -> bool:
    """
    pre: 0 <= fa < 7 and 0 <= fb < 7 and 0 <= fc < 7
    pre: fa != fc
    post: _
    """
    a = b = c = FPS[0]
    for k in range(7):
        if fa == k:
            a = FPS[k]
        if fb == k:
            b = FPS[k]
        if fc == k:
            c = FPS[k]
    with native():                  # a, b, c are concrete on this path: key generation and signing run as in production
        return _ids_written_concrete(a, b, c)


def _ids_written_concrete(a, b, c):
    saved = F.ECDHCipherText.__dict__['encrypt']
    sigfix.install_oracle()
    F.ECDHCipherText.encrypt = classmethod(_stub_ecdh_encrypt)
    Rec.forced = {(22, 0): a, (18, 0): b, (22, 1): c}          # T0 = 0x5F5E1000: last time octet 00; the delegated signing subkey is made at T0 + 1
    try:
        SIGNER, ENC, DELEG = _mk_keys()
        ENCPUB = ENC.pubkey
        if str(SIGNER.fingerprint) != a or SIGNER.fingerprint.keyid != a[24:] or list(ENC.subkeys) != [b[24:]] or list(DELEG.subkeys) != [c[24:]]:
            return False
        msg = PGPMessage.new(b'x', compression=K.CompressionAlgorithm.Uncompressed, file=False, format='b')
        sig = SIGNER.sign(msg, created=sigfix.T0)
        raw = bytes(sig.__bytearray__())
        if R.sp_issuer_fpr(bytes.fromhex(a)) not in raw or (bytes([9, 16]) + bytes.fromhex(a[24:])) not in raw:
            return False
        msg |= sig
        out = msg.__bytes__()
        if out[0] != 0xC4 or out[2:6] != bytes([3, 0, 8, 22]) or out[6:14] != bytes.fromhex(a[24:]):
            return False
        # a signature the primary delegates to its signing subkey names the SUBKEY in both issuer fields - and so does the embedded
        # primary-key-binding signature inside that subkey's binding signature
        dsig = DELEG.sign(b'doc', created=sigfix.T0)
        draw = bytes(dsig.__bytearray__())
        if R.sp_issuer_fpr(bytes.fromhex(c)) not in draw or (bytes([9, 16]) + bytes.fromhex(c[24:])) not in draw:
            return False
        if a != c and (R.sp_issuer_fpr(bytes.fromhex(a)) in draw):
            return False
        dexp = bytes(DELEG.pubkey.__bytearray__())
        if dexp.count(R.sp_issuer_fpr(bytes.fromhex(c))) != 1 or dexp.count(R.sp_issuer_fpr(bytes.fromhex(a))) < 2:
            return False
        enc = ENCPUB.encrypt(PGPMessage.new(b'y', compression=K.CompressionAlgorithm.Uncompressed, file=False, format='b'), cipher=K.SymmetricKeyAlgorithm.AES128)
        eb = enc.__bytes__()
        # first packet: tag 1 (new format C1), version 3, 8-octet key id of the ENCRYPTION SUBKEY, algorithm 18
        return eb[0] == 0xC1 and eb[2] == 3 and eb[3:11] == bytes.fromhex(b[24:]) and eb[11] == 18
    finally:
        Rec.forced = None
        F.ECDHCipherText.encrypt = saved
        sigfix.remove_oracle()


SANITY = ['fpr_opaque(False, b"\\x00\\x08\\x81\\x00")', 'fpr_opaque(True, b"ab")'] + ['ids_written(%d, %d, %d)' % (i, (i * 3 + 1) % 7, (i * 5 + 2) % 7) for i in range(7) if i != 3] + ['fpr_protected(254, 3, True, 0, 1, 2, 3, 4)', 'fpr_protected(255, 0, False, 1, 1, 2, 3, 4)', 'fpr_protected(254, 101, False, 2, 1, 2, 3, 4)', 'fpr_protected(254, 1, True, 2, 0, 0, 0, 0)'] + ['fpr_timezone(%d, %d, 0x81, 3)' % (z, t) for z in range(5) for t in range(6)] + ['fpr_rsa(False, False, 32, 0x80, 1, 17, 1, 1)', 'fpr_rsa(False, True, 25, 0, 1, 1, 1, 0)', 'fpr_rsa(True, False, 32, 0x80, 1, 17, 1, 1)', 'fpr_rsa(True, True, 31, 1, 1, 16, 0, 9)',
          'fpr_ec(0, False, 1, 2, 0, 0)', 'fpr_ec(1, False, 0, 3, 0, 0)', 'fpr_ec(2, False, 2, 2, 1, 2)', 'fpr_ec(0, True, 1, 1, 0, 0)', 'fpr_ec(2, True, 3, 0, 2, 1)', 'fpr_ec(1, True, 1, 1, 0, 0)',
          'fpr_dsa_elg(True, 8, 16, 0x80, 0x80, 1, 0x81)', 'fpr_dsa_elg(False, 1, 9, 0, 0, 0, 0)', 'fingerprint_forms(0, 3, 5, True)', 'fingerprint_forms(1, 2, 4, False)']
