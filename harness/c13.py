"""C13 - every operation draws fresh secret randomness of the right size (DESIGN.md 3/C13).

Entropy is the symbolic variable: os.urandom (the only entry point PGPy uses: gen_key, gen_iv, salts) returns the next element
of a feed whose contents the solver chooses.  A constant, a cached value, a value derived from the message or a value reused
across calls cannot be equal to an arbitrary fresh feed element, so the equality checks below are falsifiable exactly then."""
from vlib.h import ob
from harness import encfix
from harness.encfix import Cipher, Feed, S2K, RFC_KEY_OCTETS, RFC_BLOCK_OCTETS
from harness.sigfix import *          # noqa
from harness.c03 import PK, ENCPUB, ENCKEY        # noqa: installs the public-key stand-ins
from harness.c06 import key_of, privfields
from pgpy import PGPMessage
from pgpy.packet import Packet
import pgpy.packet.fields as F
import pgpy.constants as K

FUNCTIONS_ENCODED = ['pgpy.constants.SymmetricKeyAlgorithm.gen_key / gen_iv', 'pgpy.pgp.PGPMessage.encrypt', 'pgpy.pgp.PGPKey.encrypt',
                     'pgpy.packet.packets.SKESessionKeyV4.encrypt_sk', 'pgpy.packet.packets.IntegrityProtectedSKEDataV1.encrypt',
                     'pgpy.packet.fields.PrivKey.encrypt_keyblob', 'pgpy.pgp.PGPKey.protect']
STUBS = ['os.urandom (in pgpy.constants, pgpy.packet.packets, pgpy.packet.fields) -> symbolic entropy feed', 'cipher, S2K, SHA-1, public-key operation: stand-ins of harness/encfix.py and harness/c03.py']
OUTSIDE = ['quality of the operating-system random source', 'ECDH ephemeral key generation (X25519PrivateKey.generate / ec.generate_private_key are C calls inside the stubbed public-key operation): '
           'that a new ephemeral key is made per encryption is NOT decided', 'randomness used while *generating* keys']
ASSUMPTIONS = []

ALGS = (K.SymmetricKeyAlgorithm.CAST5, K.SymmetricKeyAlgorithm.AES128, K.SymmetricKeyAlgorithm.AES192, K.SymmetricKeyAlgorithm.AES256, K.SymmetricKeyAlgorithm.TripleDES,
        K.SymmetricKeyAlgorithm.Blowfish, K.SymmetricKeyAlgorithm.Camellia128, K.SymmetricKeyAlgorithm.Camellia192, K.SymmetricKeyAlgorithm.Camellia256)


def pick(ai):
    for k in range(len(ALGS)):
        if ai == k:
            return ALGS[k]
    return ALGS[0]


def fit(b, n):
    return (bytes(b) + bytes(n))[:n]


@ob('O13.1', 'passphrase encryption: the session key, the S2K salt and the data prefix are three distinct draws from the entropy source with the sizes of '
             'key, 8 and block; a second encryption of the same message draws three new ones; none of them depends on the message',
    'cipher over all 9 supported ones (sizes checked against RFC 4880 / 5581 tables); six fully symbolic feed elements (32 octets each, truncated to the size asked for); body of 0..1 symbolic octets',
    cond_timeout={'q': 280, 't': 900}, flags=('lazyhex',), partitions=[['ai == %d' % i] for i in range(9)])
def msg_encrypt_entropy(ai: int, body: bytes, e0: bytes, e1: bytes, e2: bytes, e3: bytes, e4: bytes, e5: bytes) -> bool:
    """
    pre: 0 <= ai < 9
    pre: len(body) <= 1
    pre: len(e0) == 32 and len(e1) == 32 and len(e2) == 32 and len(e3) == 32 and len(e4) == 32 and len(e5) == 32
    post: _
    """
    alg = pick(ai)
    ks, bs = RFC_KEY_OCTETS[int(alg)], RFC_BLOCK_OCTETS[int(alg)]          # sizes from the RFCs, not from PGPy's own tables
    msg = PGPMessage.new(bytes(body), compression=K.CompressionAlgorithm.Uncompressed, file=False, format='b')
    Feed.reset([e0, e1, e2, e3, e4, e5])
    for rnd, (ek, es, ep) in enumerate(((e0, e1, e2), (e3, e4, e5))):
        Cipher.reset()
        S2K.log = []
        ncalls = len(Feed.calls)
        enc = msg.encrypt('pw', cipher=alg)
        calls = Feed.calls[ncalls:]
        if [n for n, _ in calls] != [ks, 8, bs]:
            return False
        encs = [e for e in Cipher.log if e[0] == 'enc']
        if len(encs) != 2:
            return False
        sk_block, data_block = encs[0], encs[1]
        key, salt, prefix = fit(ek, ks), fit(es, 8), fit(ep, bs)
        if sk_block[1] != bytes([int(alg)]) + key or S2K.log[0][1] != salt:
            return False
        if data_block[2] != key or data_block[1][:bs] != prefix or data_block[1][bs:bs + 2] != prefix[bs - 2:]:
            return False
        pk = [p for p in enc._sessionkeys][0]
        if bytes(pk.s2k.salt) != salt:
            return False
    return True


@ob('O13.2', 'public-key encryption: the session key and the data prefix are distinct draws of key size and block size; each call draws new ones',
    'cipher over {CAST5, AES128, AES256, Camellia192}; four symbolic feed elements; body of 0..1 symbolic octets', cond_timeout={'q': 280, 't': 900}, flags=('lazyhex',), partitions=[['ai == 0'], ['ai == 1'], ['ai == 3'], ['ai == 7']])
def key_encrypt_entropy(ai: int, body: bytes, e0: bytes, e1: bytes, e2: bytes, e3: bytes) -> bool:
    """
    pre: ai in (0, 1, 3, 7)
    pre: len(body) <= 1
    pre: len(e0) == 32 and len(e1) == 32 and len(e2) == 32 and len(e3) == 32
    post: _
    """
    alg = pick(ai)
    ks, bs = RFC_KEY_OCTETS[int(alg)], RFC_BLOCK_OCTETS[int(alg)]
    msg = PGPMessage.new(bytes(body), compression=K.CompressionAlgorithm.Uncompressed, file=False, format='b')
    Feed.reset([e0, e1, e2, e3])
    for ek, ep in ((e0, e1), (e2, e3)):
        Cipher.reset()
        PK.blocks = []
        ncalls = len(Feed.calls)
        ENCPUB.encrypt(msg, cipher=alg)
        calls = Feed.calls[ncalls:]
        if [n for n, _ in calls] != [ks, bs]:
            return False
        key, prefix = fit(ek, ks), fit(ep, bs)
        s = sum(key) % 65536
        if PK.blocks != [bytes([int(alg)]) + key + bytes([s // 256, s % 256])]:
            return False
        data_block = [e for e in Cipher.log if e[0] == 'enc'][-1]
        if data_block[2] != key or data_block[1][:bs] != prefix:
            return False
    return True


@ob('O13.3', 'key protection: every key and every subkey gets its own IV and its own salt, each a new draw (IV of block size, salt of 8); changing the passphrase '
             '(unlock, protect again) draws four new ones', 'primary + one subkey (RSA, secret octets fixed); eight symbolic feed elements', cond_timeout={'q': 280, 't': 900}, flags=('symmpi',))
def protect_entropy(e0: bytes, e1: bytes, e2: bytes, e3: bytes, e4: bytes, e5: bytes, e6: bytes, e7: bytes) -> bool:
    """
    pre: len(e0) == 16 and len(e1) == 8 and len(e2) == 16 and len(e3) == 8
    pre: len(e4) == 16 and len(e5) == 8 and len(e6) == 16 and len(e7) == 8
    post: _
    """
    key, sub = key_of(0, 0x81, 2, 3, 4, 0x91, 7)
    Cipher.reset()
    Feed.reset([e0, e1, e2, e3, e4, e5, e6, e7])
    key.protect('pw', K.SymmetricKeyAlgorithm.AES128, K.HashAlgorithm.SHA1)
    if [n for n, _ in Feed.calls] != [16, 8, 16, 8]:
        return False
    a, b = key._key.keymaterial.s2k, sub._key.keymaterial.s2k
    if bytes(a.iv) != bytes(e0) or bytes(a.salt) != bytes(e1) or bytes(b.iv) != bytes(e2) or bytes(b.salt) != bytes(e3):
        return False
    encs = [e for e in Cipher.log if e[0] == 'enc']
    if not (len(encs) == 2 and encs[0][4] == bytes(e0) and encs[1][4] == bytes(e2)):
        return False
    with key.unlock('pw'):
        key.protect('pw2', K.SymmetricKeyAlgorithm.AES128, K.HashAlgorithm.SHA1)
    if [n for n, _ in Feed.calls] != [16, 8, 16, 8, 16, 8, 16, 8]:
        return False
    a, b = key._key.keymaterial.s2k, sub._key.keymaterial.s2k
    return bytes(a.iv) == bytes(e4) and bytes(a.salt) == bytes(e5) and bytes(b.iv) == bytes(e6) and bytes(b.salt) == bytes(e7)


@ob('O13.4', 'the session key never appears in the clear: with a cipher whose output ignores its input the exported message is the same octets whatever the session key is',
    'two symbolic 16-octet session keys; body of 0..1 symbolic octets', cond_timeout={'q': 280, 't': 900}, flags=('lazyhex',))
def session_key_not_in_clear(body: bytes, k1: bytes, k2: bytes) -> bool:
    """
    pre: len(body) <= 1
    pre: len(k1) == 16 and len(k2) == 16
    post: _
    """
    import pgpy.packet.packets as P
    msg = PGPMessage.new(bytes(body), compression=K.CompressionAlgorithm.Uncompressed, file=False, format='b')
    outs = []
    saved = P._encrypt
    P._encrypt = lambda pt, key, alg, iv=None: bytearray(len(pt))
    try:
        for k in (k1, k2):
            Feed.reset([bytes(8), bytes(16)])
            outs.append(msg.encrypt('pw', sessionkey=bytes(k), cipher=K.SymmetricKeyAlgorithm.AES128).__bytes__())
    finally:
        P._encrypt = saved
    return outs[0] == outs[1]


E32 = [bytes([16 * i + j for j in range(16)] * 2) for i in range(6)]
E32 = E32 + [bytes([200 + i] * 32) for i in range(2)]
SANITY = ['msg_encrypt_entropy(%d, b"x", *E32[:6])' % i for i in range(9)] + ['key_encrypt_entropy(%d, b"", *E32[:4])' % i for i in (0, 1, 3, 7)] + \
         ['protect_entropy(E32[0][:16], E32[1][:8], E32[2][:16], E32[3][:8], E32[4][:16], E32[5][:8], E32[6][:16], E32[7][:8])', 'session_key_not_in_clear(b"a", E32[0][:16], E32[1][:16])']
