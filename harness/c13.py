"""C13 - every operation draws fresh secret randomness of the right size (DESIGN.md 3/C13).

Entropy is the symbolic variable: os.urandom (the only entry point PGPy uses: gen_key, gen_iv, salts) returns the next element
of a feed whose contents the solver chooses.  A constant, a cached value, a value derived from the message or a value reused
across calls cannot be equal to an arbitrary fresh feed element, so the equality checks below are falsifiable exactly then."""
from vlib.h import ob
from harness import encfix
from harness.encfix import Cipher, Feed, S2K, RFC_KEY_OCTETS, RFC_BLOCK_OCTETS
from harness.sigfix import *          # noqa
from harness.c03 import PK, ENCPUB, ENCKEY        # noqa: installs the public-key stand-ins
from harness.c06 import key_of, privfields
from pgpy import PGPMessage
from pgpy.packet import Packet
import pgpy.packet.fields as F
import pgpy.constants as K

FUNCTIONS_ENCODED = ['pgpy.packet.packets.SKESessionKeyV4.__init__', 'pgpy.constants.SymmetricKeyAlgorithm.gen_key / gen_iv', 'pgpy.pgp.PGPMessage.encrypt', 'pgpy.pgp.PGPKey.encrypt',
                     'pgpy.packet.packets.SKESessionKeyV4.encrypt_sk', 'pgpy.packet.packets.IntegrityProtectedSKEDataV1.encrypt',
                     'pgpy.packet.fields.PrivKey.encrypt_keyblob', 'pgpy.pgp.PGPKey.protect']
STUBS = ['os.urandom (in pgpy.constants, pgpy.packet.packets, pgpy.packet.fields) -> symbolic entropy feed', 'cipher, S2K, SHA-1, public-key operation: stand-ins of harness/encfix.py and harness/c03.py']
OUTSIDE = ['quality of the operating-system random source', 'ECDH ephemeral key generation (X25519PrivateKey.generate / ec.generate_private_key are C calls inside the stubbed public-key operation): '
           'that a new ephemeral key is made per encryption is NOT decided', 'randomness used while *generating* keys']
ASSUMPTIONS = []

ALGS = (K.SymmetricKeyAlgorithm.CAST5, K.SymmetricKeyAlgorithm.AES128, K.SymmetricKeyAlgorithm.AES192, K.SymmetricKeyAlgorithm.AES256, K.SymmetricKeyAlgorithm.TripleDES,
        K.SymmetricKeyAlgorithm.Blowfish, K.SymmetricKeyAlgorithm.Camellia128, K.SymmetricKeyAlgorithm.Camellia192, K.SymmetricKeyAlgorithm.Camellia256)


def pick(ai):
    for k in range(len(ALGS)):
        if ai == k:
            return ALGS[k]
    return ALGS[0]


def fit(b, n):
    return (bytes(b) + bytes(n))[:n]


from harness.encfix import drawn_fresh

@ob('O13.1', 'passphrase encryption: the session key, the S2K salt and the data prefix are three distinct draws from the entropy source with the sizes of '
             'key, 8 and block; a second encryption of the same message draws three new ones; none of them depends on the message',
    'cipher over all 9 supported ones (sizes checked against RFC 4880 / 5581 tables); six fully symbolic feed elements (32 octets each, truncated to the size asked for); body of 0..1 symbolic octets',
    cond_timeout={'q': 280, 't': 900}, flags=('lazyhex',), partitions=[['ai == %d' % i] for i in range(9)])
def msg_encrypt_entropy(ai: int, body: bytes, e0: bytes, e1: bytes, e2: bytes, e3: bytes, e4: bytes, e5: bytes) -> bool:
    """
    pre: 0 <= ai < 9
    pre: len(body) <= 1
    pre: len(e0) == 32 and len(e1) == 32 and len(e2) == 32 and len(e3) == 32 and len(e4) == 32 and len(e5) == 32
    post: _
    """
    alg = pick(ai)
    ks, bs = RFC_KEY_OCTETS[int(alg)], RFC_BLOCK_OCTETS[int(alg)]          # sizes from the RFCs, not from PGPy's own tables
    msg = PGPMessage.new(bytes(body), compression=K.CompressionAlgorithm.Uncompressed, file=False, format='b')
    Feed.reset([e0, e1, e2, e3, e4, e5])
    for rnd in range(2):
        Cipher.reset()
        S2K.log = []
        ncalls = len(Feed.calls)
        enc = msg.encrypt('pw', cipher=alg)
        calls = Feed.calls[ncalls:]
        encs = [e for e in Cipher.log if e[0] == 'enc']
        if len(encs) != 2:
            return False
        sk_block, data_block = encs[0], encs[1]
        # what was used: session key (inside the session-key block and as the data key), salt (given to S2K and written to the packet), prefix
        key, salt, prefix = data_block[2], S2K.log[0][1], data_block[1][:bs]
        if len(key) != ks or len(salt) != 8 or sk_block[1] != bytes([int(alg)]) + key or data_block[1][bs:bs + 2] != prefix[bs - 2:]:
            return False
        if bytes([p for p in enc._sessionkeys][0].s2k.salt) != salt:
            return False
        # ... and each of them is its own draw made during THIS call
        if not drawn_fresh(calls, [(ks, key), (8, salt), (bs, prefix)]):
            return False
    return True


@ob('O13.2', 'public-key encryption: the session key and the data prefix are distinct draws of key size and block size; each call draws new ones',
    'cipher over {CAST5, AES128, AES256, Camellia192}; four symbolic feed elements; body of 0..1 symbolic octets', cond_timeout={'q': 280, 't': 900}, flags=('lazyhex',), partitions=[['ai == 0'], ['ai == 1'], ['ai == 3'], ['ai == 7']])
def key_encrypt_entropy(ai: int, body: bytes, e0: bytes, e1: bytes, e2: bytes, e3: bytes) -> bool:
    """
    pre: ai in (0, 1, 3, 7)
    pre: len(body) <= 1
    pre: len(e0) == 32 and len(e1) == 32 and len(e2) == 32 and len(e3) == 32
    post: _
    """
    alg = pick(ai)
    ks, bs = RFC_KEY_OCTETS[int(alg)], RFC_BLOCK_OCTETS[int(alg)]
    msg = PGPMessage.new(bytes(body), compression=K.CompressionAlgorithm.Uncompressed, file=False, format='b')
    Feed.reset([e0, e1, e2, e3])
    for rnd in range(2):
        Cipher.reset()
        PK.blocks = []
        ncalls = len(Feed.calls)
        ENCPUB.encrypt(msg, cipher=alg)
        calls = Feed.calls[ncalls:]
        data_block = [e for e in Cipher.log if e[0] == 'enc'][-1]
        key, prefix = data_block[2], data_block[1][:bs]
        s = sum(key) % 65536
        if len(key) != ks or PK.blocks != [bytes([int(alg)]) + key + bytes([s // 256, s % 256])]:
            return False
        if not drawn_fresh(calls, [(ks, key), (bs, prefix)]):
            return False
    return True


@ob('O13.3', 'key protection: every key and every subkey gets its own IV and its own salt, each a new draw (IV of block size, salt of 8); changing the passphrase '
             '(unlock, protect again) draws four new ones', 'primary + one subkey (RSA, secret octets fixed); eight symbolic feed elements', cond_timeout={'q': 280, 't': 900}, flags=('symmpi',))
def protect_entropy(e0: bytes, e1: bytes, e2: bytes, e3: bytes, e4: bytes, e5: bytes, e6: bytes, e7: bytes) -> bool:
    """
    pre: len(e0) == 16 and len(e1) == 8 and len(e2) == 16 and len(e3) == 8
    pre: len(e4) == 16 and len(e5) == 8 and len(e6) == 16 and len(e7) == 8
    post: _
    """
    key, sub = key_of(0, 0x81, 2, 3, 4, 0x91, 7)
    Cipher.reset()
    Feed.reset([e0, e1, e2, e3, e4, e5, e6, e7])
    for rnd, pw in enumerate(('pw', 'pw2')):
        ncalls, nenc = len(Feed.calls), len([e for e in Cipher.log if e[0] == 'enc'])
        if rnd == 0:
            key.protect(pw, K.SymmetricKeyAlgorithm.AES128, K.HashAlgorithm.SHA1)
        else:
            with key.unlock('pw'):
                key.protect(pw, K.SymmetricKeyAlgorithm.AES128, K.HashAlgorithm.SHA1)
        a, b = key._key.keymaterial.s2k, sub._key.keymaterial.s2k
        encs = [e for e in Cipher.log if e[0] == 'enc'][nenc:]
        # the IV handed to the cipher is the one written to the packet; salted S2K; and the four values are four draws of this call
        if not (len(encs) == 2 and encs[0][4] == bytes(a.iv) and encs[1][4] == bytes(b.iv) and int(a.specifier) in (1, 3) and int(b.specifier) in (1, 3)):
            return False
        if not drawn_fresh(Feed.calls[ncalls:], [(16, bytes(a.iv)), (8, bytes(a.salt)), (16, bytes(b.iv)), (8, bytes(b.salt))]):
            return False
    return True


@ob('O13.3b', 'a key that arrives protected under a Simple (unsalted) S2K and has its passphrase changed is protected with a salted specifier whose salt and IV are new draws, '
              'and that salt is the one handed to the key derivation and written to the packet',
    'foreign DSA secret key packet, usage 254, Simple S2K, AES-128; unlocked (cipher stand-in returns the well-formed secret string), protected again; two symbolic feed elements',
    cond_timeout={'q': 200, 't': 600}, flags=('symmpi',))
def reprotect_foreign_simple(e0: bytes, e1: bytes, x: int) -> bool:
    """
    pre: len(e0) == 16 and len(e1) == 16
    pre: 0 <= x < 256
    post: _
    """
    from harness.c06 import materials
    from harness.c08 import pack, pub_body
    from harness.encfix import inj_digest
    alg, pubmat, mk = materials(1)
    body = pub_body(alg, pubmat) + bytes([254, 7, 0, 2]) + bytes([x]) + bytes(15) + b'\x01\x02\x03\x04\x05\x06' * 4
    pkt = Packet(bytearray(pack(5, body, 0)))
    sec = bytes([0, 8, 0x91])
    Cipher.reset()
    Cipher.adversarial = [sec + inj_digest(sec)]
    pkt.unprotect('old')
    S2K.log = []
    Feed.reset([e0, e1])
    pkt.protect('new', K.SymmetricKeyAlgorithm.AES128, K.HashAlgorithm.SHA1)
    s2k = pkt.keymaterial.s2k
    if int(s2k.specifier) not in (1, 3) or len(bytes(s2k.salt)) != 8:
        return False
    if not S2K.log or S2K.log[-1][1] != bytes(s2k.salt) or S2K.log[-1][2] != int(s2k.specifier):
        return False
    out = bytes(pkt.__bytearray__())
    p = len(pkt.header) + len(pub_body(alg, pubmat))
    spec = int(s2k.specifier)
    ivat = p + 12 + (1 if spec == 3 else 0)
    if not (out[p] == 254 and out[p + 1] == 7 and out[p + 2] == spec and out[p + 4:p + 12] == bytes(s2k.salt) and out[ivat:ivat + 16] == bytes(s2k.iv)):
        return False
    return drawn_fresh(Feed.calls, [(16, bytes(s2k.iv)), (8, bytes(s2k.salt))])


@ob('O13.1b', 'a message encrypted to several passphrases (same session key): every passphrase packet has its own salt, each a new draw of its own call',
    'three passphrases added one after the other with the session key carried over; CAST5 and AES-128; symbolic feed elements', cond_timeout={'q': 280, 't': 900}, flags=('lazyhex',), partitions=[['ai == 0'], ['ai == 1']])
def multi_passphrase_entropy(ai: int, e0: bytes, e1: bytes, e2: bytes, e3: bytes, e4: bytes) -> bool:
    """
    pre: ai in (0, 1)
    pre: len(e0) == 32 and len(e1) == 32 and len(e2) == 32 and len(e3) == 32 and len(e4) == 32
    post: _
    """
    alg = pick(ai)
    ks, bs = RFC_KEY_OCTETS[int(alg)], RFC_BLOCK_OCTETS[int(alg)]
    msg = PGPMessage.new(b'x', compression=K.CompressionAlgorithm.Uncompressed, file=False, format='b')
    sk = bytes(range(1, ks + 1))
    Feed.reset([e0, e1, e2, e3, e4])
    S2K.log = []
    enc = msg
    salts = []
    for pw in ('one', 'two', 'three'):
        ncalls, nlog = len(Feed.calls), len(S2K.log)
        enc = enc.encrypt(pw, sessionkey=sk, cipher=alg)
        used = [e for e in S2K.log[nlog:] if e[0] == pw.encode()]
        if len(used) != 1:
            return False
        salt = used[0][1]
        if len(salt) != 8 or not drawn_fresh(Feed.calls[ncalls:], [(8, salt)]):
            return False
        salts.append(salt)
    written = [bytes(p.s2k.salt) for p in enc._sessionkeys]
    return len(written) == 3 and all(w in salts for w in written) and all(x in written for x in salts)


@ob('O13.4', 'the session key never appears in the clear: with a cipher whose output ignores its input the exported message is the same octets whatever the session key is',
    'two symbolic 16-octet session keys; body of 0..1 symbolic octets', cond_timeout={'q': 280, 't': 900}, flags=('lazyhex',))
def session_key_not_in_clear(body: bytes, k1: bytes, k2: bytes) -> bool:
    """
    pre: len(body) <= 1
    pre: len(k1) == 16 and len(k2) == 16
    post: _
    """
    import pgpy.packet.packets as P
    msg = PGPMessage.new(bytes(body), compression=K.CompressionAlgorithm.Uncompressed, file=False, format='b')
    outs = []
    saved = P._encrypt
    P._encrypt = lambda pt, key, alg, iv=None: bytearray(len(pt))
    try:
        for k in (k1, k2):
            Feed.reset([bytes(8), bytes(16)])
            outs.append(msg.encrypt('pw', sessionkey=bytes(k), cipher=K.SymmetricKeyAlgorithm.AES128).__bytes__())
    finally:
        P._encrypt = saved
    return outs[0] == outs[1]


E32 = [bytes([16 * i + j for j in range(16)] * 2) for i in range(6)]
E32 = E32 + [bytes([200 + i] * 32) for i in range(2)]
SANITY = ['msg_encrypt_entropy(%d, b"x", *E32[:6])' % i for i in range(9)] + ['key_encrypt_entropy(%d, b"", *E32[:4])' % i for i in (0, 1, 3, 7)] + \
         ['protect_entropy(E32[0][:16], E32[1][:8], E32[2][:16], E32[3][:8], E32[4][:16], E32[5][:8], E32[6][:16], E32[7][:8])', 'session_key_not_in_clear(b"a", E32[0][:16], E32[1][:16])',
          'reprotect_foreign_simple(E32[0][:16], E32[1][:16], 7)', 'multi_passphrase_entropy(0, *E32[:5])', 'multi_passphrase_entropy(1, *E32[:5])']
