"""C01 - signature soundness: verification never accepts what was not signed (DESIGN.md 3/C01).

Two-copy harnesses: a "signed" tuple fixes what the (ideal) signing primitive was asked to sign; a "presented" tuple is
what PGPKey.verify is called with.  The primitive is replaced by its ideal functionality (verifies iff exactly these octets
were signed and the signature integers are the ones produced).  Truthy verification must imply the tuples are equal."""
from vlib.h import ob
from specs import rfc4880_sig as R
from harness.sigfix import *          # noqa
from harness import sigfix
from pgpy import PGPMessage
from pgpy.errors import PGPError
import pgpy.constants as K
import hashlib as _hashlib

install_oracle()

FUNCTIONS_ENCODED = ['pgpy.pgp.PGPUID.hashdata', 'pgpy.packet.packets.UserID.parse', 'pgpy.packet.packets.SignatureV4.halg / pubalg setters', 'pgpy.pgp.PGPKey.verify', 'pgpy.pgp.PGPSignature.hashdata', 'pgpy.pgp.PGPKey.check_soundness',
                     'pgpy.types.SignatureVerification.__bool__', 'pgpy.types.SignatureVerification.add_sigsubj',
                     'pgpy.packet.fields.EdDSASignature.__sig__', 'pgpy.pgp.PGPMessage.__or__', 'pgpy.pgp.PGPMessage.signatures',
                     'specs.rfc4880_sig.hash_input (injectivity lemma)']
STUBS = ['EdDSAPub.verify -> (octets == octets handed to the signing primitive) and (signature integers == produced token): '
         'existential unforgeability taken as exact', 'keys with symbolic packet bodies: PGPKey subclasses (hashdata/is_primary/subkeys/fingerprint as attributes)']
OUTSIDE = ['the primitives themselves (DSA/ECDSA/EdDSA in cryptography/OpenSSL; RSA only through the 14 concrete mutants of O1.6) and DER encodings',
           'creation time and other time-valued subpackets are concrete', 'RSA/DSA/ECDSA key material classes: the verdict mapping is exercised through EdDSA keys; '
           'the per-algorithm verify() wrappers (InvalidSignature -> False) are four three-line functions not executed symbolically']
ASSUMPTIONS = ['ideal signature functionality (see STUBS)']


def canon(d):
    return R.canon_text(d)


def truthy(res):
    return bool(res)


# ------------------------------------------------------------------------------------ O1.1 documents
@ob('O1.1-doc', 'document signatures: a truthy verification implies the presented document equals the signed one (for text: after '
                'canonicalisation), and type, hash algorithm, hashed policy URI and signature integers are those that were signed',
    'one factor at a time. (a) signed and presented documents of 0..2 (quick) / 0..3 (thorough) symbolic octets with type in {0,1}^2, other fields equal; '
    '(b) fixed documents with type in {0,1}^2, hash id in {2,8}^2, policy URI of 0..1 symbolic characters each, signature token from {1,2} each', cond_timeout={'q': 280, 't': 1500},
    # one factor at a time: (a) documents free, packet fields equal and concrete; (b) documents fixed, packet fields free
    partitions={'q': [['t0 == %d' % a, 't1 == %d' % b, 'len(d0) <= 2 and len(d1) <= 2', 'h0 == 8 and h1 == 8 and u0 == "" and u1 == "" and k0 == 1 and k1 == 1'] for a in (0, 1) for b in (0, 1)] +
                     [['t0 == %d' % a, 't1 == %d' % b, 'd0 == b"a" and d1 == b"a"', 'k0 in (1, 2) and k1 in (1, 2)', 'h0 == %d' % c] for a in (0, 1) for b in (0, 1) for c in (2, 8)],
                't': [['t0 == %d' % a, 't1 == %d' % b, 'h0 == 8 and h1 == 8 and u0 == "" and u1 == "" and k0 == 1 and k1 == 1'] for a in (0, 1) for b in (0, 1)] +
                     [['t0 == %d' % a, 't1 == %d' % b, 'len(d0) <= 1 and len(d1) <= 1', 'k0 == %d and k1 in (1, 2, 255)' % k, 'h0 == %d' % c, 'h1 == %d' % d] for a in (0, 1) for b in (0, 1) for c in (2, 8) for d in (2, 8) for k in (1, 2, 255)]})
def sound_doc(t0: int, t1: int, d0: bytes, d1: bytes, h0: int, h1: int, u0: str, u1: str, k0: int, k1: int) -> bool:
    """
    pre: t0 in (0, 1) and t1 in (0, 1)
    pre: len(d0) <= 3 and len(d1) <= 3
    pre: h0 in (2, 8) and h1 in (2, 8)
    pre: len(u0) <= 1 and len(u1) <= 1
    pre: 0 <= k0 < 256 and 0 <= k1 < 256
    post: _
    """
    s0 = mk_sig(SignatureType(t0), halg=HashAlgorithm(h0), token=bytes([k0]))
    s0._signature.subpackets.addnew('Policy', hashed=True, uri=u0)
    s1 = mk_sig(SignatureType(t1), halg=HashAlgorithm(h1), token=bytes([k1]))
    s1._signature.subpackets.addnew('Policy', hashed=True, uri=u1)
    Oracle.reset()
    Oracle.signed = bytes(s0.hashdata(d0))
    Oracle.token = bytes(s0.__sig__)
    try:
        ok = truthy(PUB.verify(d1, s1))
    except PGPError:
        ok = False
    if not ok:
        return True
    same_doc = (d0 == d1) if t0 == 0 else (canon(d0) == canon(d1))
    return same_doc and t0 == t1 and h0 == h1 and u0 == u1 and k0 == k1


@ob('O1.1-reach', 'reachability witness (must be REFUTED): with nothing changed the harness pipeline does report a truthy verification, '
                  'for a document, a message, a user id, a key and a subkey-issued signature', 'kind in 0..4; payload of 0..2 symbolic octets',
    cond_timeout={'q': 200, 't': 200}, expect='refute', partitions=[['kind == %d' % k] for k in range(5)])
def never_truthy(kind: int, d0: bytes) -> bool:
    """
    pre: 0 <= kind < 5
    pre: len(d0) <= 2
    post: _
    """
    Oracle.reset()
    if kind == 0:
        s0 = mk_sig(SignatureType.BinaryDocument)
        subj = d0
    elif kind == 1:
        s0 = mk_sig(SignatureType.BinaryDocument)
        subj = None
    elif kind == 2:
        s0 = mk_sig(SignatureType.Positive_Cert)
        subj = PGPUID.new('u')
        keep = FakePrimary(b'k' + d0)
        subj._parent = keep
    elif kind == 3:
        s0 = mk_sig(SignatureType.Subkey_Binding)
        keep = FakePrimary(b'p')
        subj = FakeSub(b's' + d0, keep)
    else:
        s0 = mk_sig(SignatureType.BinaryDocument, signer=SUBID)
        subj = d0
    if kind == 1:
        Oracle.signed = bytes(s0.hashdata(d0))
        msg = PGPMessage.new(bytes(d0), compression=K.CompressionAlgorithm.Uncompressed, file=False, format='b')
        msg |= s0
        Oracle.token = bytes(s0.__sig__)
        return not truthy(PUB.verify(msg))
    Oracle.signed = bytes(s0.hashdata(subj))
    Oracle.token = bytes(s0.__sig__)
    return not truthy(PUB.verify(subj, s0))


@ob('O1.1-msg', 'signatures carried inside a message: verify(message) is truthy only if the message body is what was signed',
    'signed and carried literal bodies of 0..2 symbolic octets; signature type in {0,1} (binary / text message)', cond_timeout={'q': 280, 't': 900},
    partitions=[['t0 == 0'], ['t0 == 1']])
def sound_msg(t0: int, d0: bytes, d1: bytes) -> bool:
    """
    pre: t0 in (0, 1)
    pre: len(d0) <= 2 and len(d1) <= 2
    post: _
    """
    s0 = mk_sig(SignatureType(t0))
    Oracle.reset()
    Oracle.signed = bytes(s0.hashdata(d0))
    Oracle.token = bytes(s0.__sig__)
    msg = PGPMessage.new(bytes(d1), compression=K.CompressionAlgorithm.Uncompressed, file=False, format='b')
    msg |= s0
    try:
        ok = truthy(PUB.verify(msg))
    except PGPError:
        ok = False
    if not ok:
        return True
    return (d0 == d1) if t0 == 0 else (canon(d0) == canon(d1))


# ------------------------------------------------------------------------------------ O1.1 certifications and key signatures
@ob('O1.1-uid', 'certifications: truthy only if the presented (key body, user id) pair and certification type are the signed ones',
    'signed/presented key bodies of 1..2 symbolic octets; user ids of 0..2 symbolic characters; types from {0x10, 0x13, 0x30}^2',
    cond_timeout={'q': 280, 't': 1500},
    partitions={'q': [['ti == %d' % a, 'tj == %d' % b, 'len(u0) <= 1 and len(u1) <= 1'] for a in range(3) for b in range(3)],
                't': [['ti == %d' % a, 'tj == %d' % b] for a in range(3) for b in range(3)]})
def sound_uid(ti: int, tj: int, kb0: bytes, kb1: bytes, u0: str, u1: str) -> bool:
    """
    pre: 0 <= ti < 3 and 0 <= tj < 3
    pre: 1 <= len(kb0) <= 2 and 1 <= len(kb1) <= 2
    pre: len(u0) <= 2 and len(u1) <= 2
    post: _
    """
    types = (0x10, 0x13, 0x30)
    s0 = mk_sig(SignatureType(types[ti]))
    s1 = mk_sig(SignatureType(types[tj]))
    ka, kbb = FakePrimary(kb0), FakePrimary(kb1)          # keep them alive: _parent is a weak reference
    a = PGPUID.new(u0)
    a._parent = ka
    b = PGPUID.new(u1)
    b._parent = kbb
    Oracle.reset()
    Oracle.signed = bytes(s0.hashdata(a))
    Oracle.token = bytes(s0.__sig__)
    try:
        ok = truthy(PUB.verify(b, s1))
    except PGPError:
        ok = False
    if not ok:
        return True
    return ti == tj and kb0 == kb1 and u0 == u1


JPEG = b'\xff\xd8\xff\xe0\x00\x10JFIF\x00'


@ob('O1.1-attr', 'a certification of a user id never verifies for a user attribute (or vice versa), whatever their octets',
    'user id of 0..3 symbolic characters against an image attribute with 0..3 symbolic trailing octets; key bodies of 1..2 symbolic octets',
    cond_timeout={'q': 280, 't': 900}, partitions=[['dirn == 0'], ['dirn == 1']])
def sound_uid_vs_attr(dirn: int, kb0: bytes, kb1: bytes, u: str, tail: bytes) -> bool:
    """
    pre: dirn in (0, 1)
    pre: 1 <= len(kb0) <= 2 and 1 <= len(kb1) <= 2
    pre: len(u) <= 3 and len(tail) <= 3
    post: _
    """
    s0 = mk_sig(SignatureType.Positive_Cert)
    ka, kbb = FakePrimary(kb0), FakePrimary(kb1)
    a = PGPUID.new(u)
    a._parent = ka
    b = PGPUID.new(bytearray(JPEG + tail))
    b._parent = kbb
    signed, shown = (a, b) if dirn == 0 else (b, a)
    Oracle.reset()
    Oracle.signed = bytes(s0.hashdata(signed))
    Oracle.token = bytes(s0.__sig__)
    try:
        ok = truthy(PUB.verify(shown, s0))
    except PGPError:
        ok = False
    return not ok


@ob('O1.1-key', 'signatures over keys (direct-key, key revocation, subkey binding, subkey revocation): truthy only for the signed key bodies and type',
    'primary and subkey bodies of 0..2 symbolic octets, signed and presented; types from {0x1F, 0x20, 0x18, 0x28}^2',
    cond_timeout={'q': 280, 't': 1500}, partitions=[['ti == %d' % a, 'tj == %d' % b] for a in range(4) for b in range(4)])
def sound_key(ti: int, tj: int, p0: bytes, s0b: bytes, p1: bytes, s1b: bytes) -> bool:
    """
    pre: 0 <= ti < 4 and 0 <= tj < 4
    pre: len(p0) <= 2 and len(s0b) <= 2 and len(p1) <= 2 and len(s1b) <= 2
    post: _
    """
    types = (0x1F, 0x20, 0x18, 0x28)
    t0, t1 = types[ti], types[tj]
    sg0 = mk_sig(SignatureType(t0))
    sg1 = mk_sig(SignatureType(t1))
    P0 = FakePrimary(p0)
    S0 = FakeSub(s0b, P0)
    P1 = FakePrimary(p1)
    S1 = FakeSub(s1b, P1)
    subj0 = P0 if t0 in (0x1F, 0x20) else S0
    subj1 = P1 if t1 in (0x1F, 0x20) else S1
    Oracle.reset()
    Oracle.signed = bytes(sg0.hashdata(subj0))
    Oracle.token = bytes(sg0.__sig__)
    try:
        ok = truthy(PUB.verify(subj1, sg1))
    except PGPError:
        ok = False
    if not ok:
        return True
    if t0 != t1 or p0 != p1:
        return False
    return t0 in (0x1F, 0x20) or s0b == s1b


# ------------------------------------------------------------------------------------ O1.3 wrong key / subkey delegation
class Used:
    material = []


def _verify_rec(self, subj, sigbytes, hash_alg):
    Used.material.append(self)
    return sigfix._verify(self, subj, sigbytes, hash_alg)


F.EdDSAPub.verify = _verify_rec


@ob('O1.3', 'the verifying key: a signature naming key A presented to key B raises or is falsy; a signature naming a subkey is checked '
            'against that subkey\'s material, one naming the primary against the primary\'s', 'issuer in {primary, subkey, other key} x verifying key in {A, B}; document 0..2 symbolic octets signed and presented',
    cond_timeout={'q': 280, 't': 600})
def wrong_key(issuer: int, vk: int, d0: bytes, d1: bytes) -> bool:
    """
    pre: 0 <= issuer < 3
    pre: vk in (0, 1)
    pre: len(d0) <= 2 and len(d1) <= 2
    post: _
    """
    signer = (KEY.fingerprint.keyid, SUBID, KEY2.fingerprint.keyid)[issuer]
    s0 = mk_sig(SignatureType.BinaryDocument, signer=signer)
    Oracle.reset()
    Oracle.signed = bytes(s0.hashdata(d0))
    Oracle.token = bytes(s0.__sig__)
    Used.material = []
    verifier = (PUB, PUB2)[vk]
    try:
        ok = truthy(verifier.verify(d1, s0))
    except PGPError:
        ok = False
    belongs = (issuer in (0, 1) and vk == 0) or (issuer == 2 and vk == 1)
    if not belongs:
        return not ok and len(Used.material) == 0
    if ok and d0 != d1:
        return False
    if len(Used.material) != 1:
        return False
    want = (PUB._key.keymaterial, PUB.subkeys[SUBID]._key.keymaterial, PUB2._key.keymaterial)[issuer]
    return Used.material[0] is want and ok == (d0 == d1)


# ------------------------------------------------------------------------------------ O1.4 signature integers reach the primitive unaltered
R0 = int.from_bytes(bytes(range(1, 33)), 'big')
S0 = int.from_bytes(bytes(range(101, 133)), 'big')


@ob('O1.4', 'signature integers: two signature packets whose integers differ never hand the same octets to the verifying primitive '
            '(also for integers wider than the curve size: they must not be truncated or wrapped)',
    'EdDSA: r = a*2^256 + R0, s = c*2^256 + S0 against r\' = b*2^256 + R0, s\' = d*2^256 + S0 with a,b,c,d in 0..3 (values up to 258 bits) and a low octet from {0,1,255} each (2304 combinations, enumerated per path); '
    'RSA: two symbolic integers below 2^32', cond_timeout={'q': 280, 't': 900}, flags=('symmpi',), partitions=[['alg == 22', 'a == %d' % i] for i in range(4)] + [['alg == 1']])
def sig_integers_distinct(alg: int, a: int, b: int, c: int, d: int, lo1: int, lo2: int, v1: int, v2: int) -> bool:
    """
    pre: alg in (22, 1)
    pre: 0 <= a < 4 and 0 <= b < 4 and 0 <= c < 4 and 0 <= d < 4
    pre: lo1 in (0, 1, 255) and lo2 in (0, 1, 255)
    pre: 0 <= v1 < 2**32 and 0 <= v2 < 2**32
    pre: alg == 1 or (v1 == 0 and v2 == 0)
    pre: alg == 22 or (a == 0 and b == 0 and c == 0 and d == 0 and lo1 == 0 and lo2 == 0)
    post: _
    """
    from pgpy.packet import types as T
    if alg == 22:
        vals = [0, 0, 0, 0, 0, 0]
        for j, sym in enumerate((a, b, c, d, lo1, lo2)):       # concrete value per path: 258-bit symbolic integers are beyond the solver
            for k in (range(4) if j < 4 else (0, 1, 255)):
                if sym == k:
                    vals[j] = k
        a, b, c, d, lo1, lo2 = vals
        x, y = F.EdDSASignature(), F.EdDSASignature()
        x.r, x.s = T.MPI(a * 2 ** 256 + R0 - (R0 % 256) + lo1), T.MPI(c * 2 ** 256 + S0)
        y.r, y.s = T.MPI(b * 2 ** 256 + R0 - (R0 % 256) + lo2), T.MPI(d * 2 ** 256 + S0)
        same = bytes(x.__sig__()) == bytes(y.__sig__())
        return (not same) or (a == b and c == d and lo1 == lo2)
    x, y = F.RSASignature(), F.RSASignature()
    x.md_mod_n, y.md_mod_n = T.MPI(v1), T.MPI(v2)
    same = bytes(x.__sig__()) == bytes(y.__sig__())
    return (not same) or v1 == v2


# ------------------------------------------------------------------------------------ O1.2 injectivity of the reference model
@ob('O1.2', 'lemma on the reference model: equal RFC hash inputs imply equal (kind, octets): with C02-O2.1 (real = reference) this carries '
            'injectivity over to the real hashdata for subject kinds that the two-copy harnesses do not pair directly',
    'kinds {document, user id, attribute, key, key+subkey} pairwise; payloads of 0..2 symbolic octets; key bodies of 1..2; same type octet class per kind',
    cond_timeout={'q': 280, 't': 900}, partitions=[['ka == %d' % a] for a in range(5)])
def spec_injective(ka: int, kb: int, x0: bytes, y0: bytes, x1: bytes, y1: bytes) -> bool:
    """
    pre: 0 <= ka < 5 and 0 <= kb < 5
    pre: len(x0) <= 2 and len(x1) <= 2
    pre: 1 <= len(y0) <= 2 and 1 <= len(y1) <= 2
    post: _
    """
    area = R.area([R.sp_creation_time(T0_INT)])

    def inp(kind, x, y):
        if kind == 0:
            return R.hash_input(0x00, 22, 8, area, doc=x)
        if kind == 1:
            return R.hash_input(0x13, 22, 8, area, primary=y, uid=x)
        if kind == 2:
            return R.hash_input(0x13, 22, 8, area, primary=y, attr=x)
        if kind == 3:
            return R.hash_input(0x1F, 22, 8, area, primary=y)
        return R.hash_input(0x18, 22, 8, area, primary=y, subkey=x)
    if inp(ka, x0, y0) != inp(kb, x1, y1):
        return True
    if ka != kb:
        return False
    if ka == 0:
        return x0 == x1
    if ka == 3:
        return y0 == y1
    return x0 == x1 and y0 == y1


# ------------------------------------------------------------------------------------ O1.5 algorithm octets; O1.1-uidpkt raw user id packets
from vlib.h import native
from pgpy import PGPSignature
from pgpy.packet import Packet as _Packet


def _alg_mutation(which, v):
    """a valid signature over b'doc' whose hash (which=0) or public-key (which=1) algorithm octet is replaced by v, re-parsed from octets and verified"""
    s0 = mk_sig(SignatureType.BinaryDocument)
    Oracle.reset()
    Oracle.signed = bytes(s0.hashdata(b'doc'))
    Oracle.token = bytes(s0.__sig__)
    raw = bytearray(bytes(s0.__bytearray__()))
    hl = 2 if raw[1] < 192 else 3
    orig = raw[hl + 3 - which]                    # body: version, type, public-key algorithm, hash algorithm
    raw[hl + 3 - which] = v
    try:
        s1 = PGPSignature.from_blob(bytes(raw))
        ok = truthy(PUB.verify(b'doc', s1))
    except Exception:
        ok = False
    return (not ok) or v == orig


@ob('O1.5', 'either algorithm identifier of an accepted signature replaced by ANY other octet value (known, deprecated, reserved, unknown to the backend, unassigned): '
            'the re-parsed signature never verifies truthy - it is falsy or an error', 'octet in {hash algorithm, public-key algorithm} x all 256 values; each path concrete and native (oracle primitive)',
    cond_timeout={'q': 200, 't': 600}, partitions=[['which == %d' % w, 'v // 64 == %d' % q] for w in (0, 1) for q in range(4)])
def algorithm_octet_mutation(which: int, v: int) -> bool:
    """
    pre: which in (0, 1)
    pre: 0 <= v < 256
    post: _
    """
    w = 1 if which == 1 else 0
    vv = 0
    base = 64 * (v // 64)
    for q in range(4):
        if v // 64 == q:
            base = 64 * q
    for k in range(64):
        if v == base + k:
            vv = base + k
    with native():
        return _alg_mutation(w, vv)


UIDS = (b'a', b'Ren\xe9', b'Ren\xc3\xa9', b'\xff\xfe', b'\xc3\xbf\xc3\xbe', b'', b'a ', b'A', b'e\xcc\x81', b'\xc3\xa9', b'\xe9')


def _uid_packets(i, j, ti, tj):
    """certification made over the user id PACKET with body UIDS[i]; presented with the packet with body UIDS[j] (parsed from octets, same key)"""
    types = (0x10, 0x13, 0x30)
    key = FakePrimary(b'k1')
    def load(body):
        u = PGPUID()
        u._uid = _Packet(bytearray(bytes([0xB4, len(body)]) + body))
        u._parent = key
        return u
    try:
        a, b = load(UIDS[i]), load(UIDS[j])
    except Exception:
        return True
    s0, s1 = mk_sig(SignatureType(types[ti])), mk_sig(SignatureType(types[tj]))
    Oracle.reset()
    Oracle.signed = bytes(s0.hashdata(a))
    Oracle.token = bytes(s0.__sig__)
    try:
        ok = truthy(PUB.verify(b, s1))
    except PGPError:
        ok = False
    return (not ok) or (i == j and ti == tj)


def _attr_packet(tails):
    """user attribute packet (tag 17) with one image subpacket per element of `tails` (JPEG magic + tail)"""
    body = b''
    for t in tails:
        sp = b'\x01' + b'\x10\x00\x01\x01' + bytes(12) + JPEG + bytes(t)
        body += bytes([len(sp)]) + sp
    return bytes([0xD1, len(body)]) + body


@ob('O1.1-attr2', 'certifications over a user attribute with SEVERAL subpackets cover all of them: truthy only if every subpacket of the presented attribute is the signed one',
    'attribute packets with two image subpackets, parsed from octets; tails of 0..2 symbolic octets in the first and the second subpacket, signed and presented; same key',
    cond_timeout={'q': 280, 't': 900}, partitions=[['len(a1) == len(b1)'], ['len(a1) != len(b1)']])
def sound_attr_subpackets(a0: bytes, a1: bytes, b0: bytes, b1: bytes) -> bool:
    """
    pre: len(a0) <= 1 and len(b0) <= 1
    pre: len(a1) <= 2 and len(b1) <= 2
    post: _
    """
    key = FakePrimary(b'k1')
    s0 = mk_sig(SignatureType.Positive_Cert)
    ua, ub = PGPUID(), PGPUID()
    try:
        ua._uid = _Packet(bytearray(_attr_packet([a0, a1])))
        ub._uid = _Packet(bytearray(_attr_packet([b0, b1])))
    except Exception:
        return True
    ua._parent = key
    ub._parent = key
    Oracle.reset()
    Oracle.signed = bytes(s0.hashdata(ua))
    Oracle.token = bytes(s0.__sig__)
    try:
        ok = truthy(PUB.verify(ub, s0))
    except PGPError:
        ok = False
    return (not ok) or (bytes(a0) == bytes(b0) and bytes(a1) == bytes(b1))


_RSA = []


def _rsa_fixture():
    """a real RSA-2048 key and its signature over b'doc' (made on first use: other obligations of this module run with the symbolic MPI twin installed)"""
    if not _RSA:
        k = PGPKey.new(PubKeyAlgorithm.RSAEncryptOrSign, 2048, created=T0)
        k.add_uid(PGPUID.new('r'), usage={KeyFlags.Sign, KeyFlags.Certify}, hashes=[HashAlgorithm.SHA256], created=T0)
        _RSA.extend([k, k.sign(b'doc', created=T0)])
    return _RSA


def _rsa_mutant(mi, again):
    """the genuine RSA signature over b'doc' with its integer replaced by mutant mi, re-parsed from octets, verified with the real RSA primitive"""
    from pgpy.packet.types import MPI
    RSAKEY, RSASIG = _rsa_fixture()
    s_ = int(RSASIG._signature.signature.md_mod_n)
    n = int(RSAKEY._key.keymaterial.n)
    klen = (n.bit_length() + 7) // 8
    mutants = (s_, s_ + 256 ** klen, s_ + 0x102 * 256 ** klen, s_ ^ 1, s_ + 256 ** (klen + 3), (s_ + 1) % n, s_ ^ (1 << (8 * klen - 9)))
    sig = PGPSignature.from_blob(bytes(RSASIG))
    sig._signature.signature.md_mod_n = MPI(mutants[mi])
    sig._signature.update_hlen()
    sig = PGPSignature.from_blob(bytes(sig))
    if int(sig._signature.signature.md_mod_n) != mutants[mi]:
        return False
    doc = b'doc' if not again else b'doc2'
    try:
        ok = truthy(RSAKEY.pubkey.verify(doc, sig))
    except Exception:
        ok = False
    return ok == (mi == 0 and not again)


@ob('O1.6', 'signature integers, real RSA primitive: the genuine integer verifies for the signed document only; the same integer with octets added above the modulus width, '
            'with a flipped bit, or incremented never verifies', 'mutation by symbolic index from {none, + 256^k, + 0x102 * 256^k, xor 1, + 256^(k+3), + 1 mod n, xor a high bit} (k = modulus length) x {signed document, another document}; RSA-2048, SHA-256; native per path',
    cond_timeout={'q': 200, 't': 600})
def rsa_integer_mutation(mi: int, other_doc: bool) -> bool:
    """
    pre: 0 <= mi < 7
    post: _
    """
    m = 0
    for k in range(7):
        if mi == k:
            m = k
    od = True if other_doc else False
    with native():
        return _rsa_mutant(m, od)


@ob('O1.1-uidpkt', 'certifications over user id PACKETS given by their octets: truthy only if the presented packet body is octet for octet the signed one '
                   '(bodies that are not UTF-8, or that differ only in encoding / normalisation form, are different user ids)',
    'signed / presented body by symbolic index from 11 (ASCII, Latin-1 vs UTF-8 of the same text, invalid UTF-8 vs its charmap rendering re-encoded, NFC vs NFD, case, trailing blank, empty); types from {0x10,0x13,0x30}^2; native per path',
    cond_timeout={'q': 200, 't': 600})
def sound_uid_packets(i: int, j: int, ti: int, tj: int) -> bool:
    """
    pre: 0 <= i < 11 and 0 <= j < 11
    pre: 0 <= ti < 3 and 0 <= tj < 3
    post: _
    """
    a = b = c = d = 0
    for k in range(11):
        if i == k:
            a = k
        if j == k:
            b = k
    for k in range(3):
        if ti == k:
            c = k
        if tj == k:
            d = k
    with native():
        return _uid_packets(a, b, c, d)


SANITY = ['rsa_integer_mutation(%d, %s)' % (m, o) for m in range(7) for o in (True, False)] + ['sound_attr_subpackets(b"", b"x", b"", b"y")', 'sound_attr_subpackets(b"a", b"xy", b"a", b"xy")', 'sound_attr_subpackets(b"", b"", b"", b"z")'] + ['algorithm_octet_mutation(0, 8)', 'algorithm_octet_mutation(0, 3)', 'algorithm_octet_mutation(0, 0)', 'algorithm_octet_mutation(0, 99)', 'algorithm_octet_mutation(1, 1)', 'algorithm_octet_mutation(1, 22)', 'sound_uid_packets(1, 2, 0, 0)', 'sound_uid_packets(3, 4, 1, 1)', 'sound_uid_packets(8, 9, 0, 0)', 'sound_uid_packets(1, 1, 2, 2)'] + ['sound_doc(0, 0, b"ab", b"ab", 8, 8, "u", "u", 5, 5)', 'sound_doc(0, 0, b"ab", b"ac", 8, 8, "u", "u", 5, 5)',
          'sound_doc(1, 1, b"a\\n", b"a\\r\\n", 8, 8, "", "", 1, 1)', 'sound_doc(0, 1, b"a", b"a", 8, 8, "", "", 1, 1)',
          'sound_doc(0, 0, b"a", b"a", 2, 8, "", "", 1, 1)', 'sound_doc(0, 0, b"a", b"a", 8, 8, "x", "y", 1, 1)', 'sound_doc(0, 0, b"a", b"a", 8, 8, "", "", 1, 2)',
          'sound_msg(0, b"ab", b"ab")', 'sound_msg(0, b"ab", b"a")', 'sound_msg(1, b"a\\n", b"a\\r\\n")',
          'sound_uid(0, 0, b"k", b"k", "u", "u")', 'sound_uid(1, 1, b"k", b"k", "u", "v")', 'sound_uid(1, 2, b"k", b"k", "u", "u")', 'sound_uid(0, 0, b"k", b"kk", "", "")',
          'sound_uid_vs_attr(0, b"k", b"k", "abc", b"xyz")', 'sound_uid_vs_attr(1, b"k", b"k", "", b"")',
          'sound_key(0, 0, b"p", b"s", b"p", b"s")', 'sound_key(2, 2, b"p", b"s", b"p", b"t")', 'sound_key(2, 3, b"p", b"s", b"p", b"s")', 'sound_key(1, 1, b"", b"", b"", b"x")',
          'wrong_key(0, 0, b"d", b"d")', 'wrong_key(1, 0, b"d", b"d")', 'wrong_key(2, 0, b"d", b"d")', 'wrong_key(0, 1, b"d", b"d")', 'wrong_key(2, 1, b"d", b"e")',
          'wrong_key(1, 0, b"d", b"e")', 'sig_integers_distinct(22, 0, 1, 0, 0, 5, 5, 0, 0)', 'sig_integers_distinct(22, 2, 2, 1, 1, 5, 5, 0, 0)', 'sig_integers_distinct(1, 0, 0, 0, 0, 0, 0, 7, 7)', 'sig_integers_distinct(1, 0, 0, 0, 0, 0, 0, 7, 263)', 'spec_injective(0, 1, b"a", b"k", b"a", b"k")', 'spec_injective(1, 2, b"", b"k", b"", b"k")', 'spec_injective(4, 4, b"s", b"p", b"s", b"p")']
