"""C12 - string-to-key derivation equals RFC 4880 3.7.1 (DESIGN.md 3/C12)."""
import ast
import hashlib as _hashlib
import inspect
import textwrap
import warnings

import z3

from vlib.h import ob
from vlib import astsmt
import pgpy.constants as K
from pgpy.constants import HashAlgorithm, SymmetricKeyAlgorithm, String2KeyType
from pgpy.packet.fields import String2Key

warnings.simplefilter('ignore')

FUNCTIONS_ENCODED = ['pgpy.packet.fields.String2Key.derive_key', 'pgpy.packet.fields.String2Key.count',
                     'pgpy.constants.HashAlgorithm.hasher', 'pgpy.constants.HashAlgorithm.digest_size',
                     'pgpy.constants.SymmetricKeyAlgorithm.key_size']
STUBS = ['hashlib.new -> recording hash: remembers every update(); digest() = f(length, first/last octets) padded to the real digest size']
OUTSIDE = ['the hash functions themselves', 'iterated S2K *content* with a fully symbolic passphrase (>= 1024 symbolic octets per stream): '
           'content is decided with 2 symbolic passphrase octets + a long concrete tail; the copy/remainder arithmetic is decided for every length (O12.1)',
           'Python sequence repetition (bytes * int) is trusted']
ASSUMPTIONS = ['RFC 4880 3.7.1.1-3.7.1.3 as written in spec_streams()']


# ------------------------------------------------------------------------------------ recording hash
class Rec:
    log = []

    def __init__(self, name):
        self.name = name
        self.digest_size = _hashlib.new(name).digest_size
        self.data = b''
        Rec.log.append(self)

    def update(self, b):
        self.data = self.data + bytes(b)

    def digest(self):
        return stub_digest(self.data, self.digest_size)


def stub_digest(data, size):
    n = len(data)
    head = [n % 256, (n // 256) % 256]
    for i in range(6):
        head.append(data[i] if i < n else 0xEE)
    for i in range(1, 7):
        head.append(data[n - i] if i <= n else 0xDD)
    out = bytes(head)
    while len(out) < size:
        out = out + bytes([len(out)])
    return out[:size]


class _HL:
    @staticmethod
    def new(name, *a, **k):
        return Rec(name)


K.hashlib = _HL            # HashAlgorithm.hasher -> hashlib.new(self.name)


def spec_streams(spec, hname, keybits, salt, pw, coded):
    """RFC 4880 3.7.1: list of per-context hash inputs and the number of key octets"""
    hbits = _hashlib.new(hname).digest_size * 8
    nctx = (keybits + hbits - 1) // hbits
    if spec == 0:
        stream = pw
    elif spec == 1:
        stream = salt + pw
    else:
        unit = salt + pw
        count = (16 + (coded & 15)) << ((coded >> 4) + 6)
        if count < len(unit):
            count = len(unit)
        stream = unit * (count // len(unit)) + unit[:count % len(unit)]
    return [b'\x00' * i + stream for i in range(nctx)], keybits // 8


def run_case(spec, halg, encalg, salt, pw, coded):
    s = String2Key()
    s.usage = 254
    s.encalg = encalg
    s.specifier = spec
    s.halg = halg
    s.salt = bytearray(salt)
    s.count = coded
    Rec.log = []
    key = s.derive_key(pw)
    hname = HashAlgorithm(halg).name
    want_inputs, klen = spec_streams(spec, hname, SymmetricKeyAlgorithm(encalg).key_size, bytes(salt), pw, coded)
    got_inputs = [r.data for r in Rec.log if r.data is not None and (r.data != b'' or True)]
    # digest_size probes create extra recorders with no input: keep those that were fed or the last nctx ones
    fed = got_inputs[-len(want_inputs):]
    if len(fed) != len(want_inputs):
        return False
    for a, b in zip(fed, want_inputs):
        if a != b:
            return False
    dsz = _hashlib.new(hname).digest_size
    want_key = b''.join(stub_digest(i, dsz) for i in want_inputs)[:klen]
    return bytes(key) == want_key and len(key) == klen


CONFIGS = [(1, 9), (2, 9), (2, 2), (3, 8), (8, 9), (9, 3), (10, 7), (11, 9), (2, 7), (1, 7)]      # (hash id, cipher id)
# MD5/AES256 (2 ctx), SHA1/AES256 (2), SHA1/3DES (2), RIPEMD160/AES192 (2), SHA256/AES256 (1), SHA384/CAST5 (1),
# SHA512/AES128 (1), SHA224/AES256 (2), SHA1/AES128 (1), MD5/AES128 (1)


@ob('O12.3a', 'Simple and Salted S2K: every context is fed i zero octets then salt||passphrase; key = digests in order, truncated',
    'specifier in {0,1}, 10 (hash, cipher) configurations (1 and 2 contexts), symbolic salt (8 octets) and passphrase of 0..3 symbolic octets',
    cond_timeout={'q': 240, 't': 900}, partitions=[['cfg == %d' % i] for i in range(len(CONFIGS))])
def simple_salted(spec: int, cfg: int, salt: bytes, pw: bytes) -> bool:
    """
    pre: spec in (0, 1)
    pre: 0 <= cfg < len(CONFIGS)
    pre: len(salt) == 8
    pre: len(pw) <= 3
    post: _
    """
    h, c = CONFIGS[cfg]
    return run_case(spec, h, c, salt, pw, 0)


@ob('O12.3c', 'text passphrases: the stream uses exactly the UTF-8 octets of the passphrase as given (no trimming, folding or normalisation)',
    'passphrase of 0..2 symbolic characters over all of Unicode (incl. white space, NUL, non-BMP); Salted and Simple S2K; SHA-1/AES-128',
    cond_timeout={'q': 240, 't': 900}, partitions=[['spec == 0'], ['spec == 1']])
def text_passphrase(spec: int, salt: bytes, pw: str) -> bool:
    """
    pre: spec in (0, 1)
    pre: len(salt) == 8
    pre: len(pw) <= 2
    post: _
    """
    s = String2Key()
    s.usage = 254
    s.encalg = 7
    s.specifier = spec
    s.halg = 2
    s.salt = bytearray(salt)
    s.count = 0
    Rec.log = []
    s.derive_key(pw)
    want = (bytes(salt) if spec == 1 else b'') + pw.encode('utf-8')
    fed = [r.data for r in Rec.log][-1:]
    return fed == [want]


TAIL = bytes((i * 13 + 5) % 256 for i in range(1200))


@ob('O12.3b', 'Iterated S2K content: stream is whole copies of salt||passphrase plus the leading remainder, at least one full copy',
    'coded count in {0, 1, 16, 17} (1024..2176 octets); passphrase = 2 symbolic octets + concrete tail of symbolic-choice length '
    'from {0, 1, 6, 7, 13, 22, 54} (units of 10, 11, 16, 17, 23, 32, 64 octets: remainders inside the salt, inside the passphrase, and zero) and, thorough only, 1100 (passphrase longer than the count); '
    'symbolic salt; MD5/AES-256 (two contexts) and SHA-1/AES-128',
    cond_timeout={'q': 300, 't': 1500},
    partitions={'q': [['ci == %d' % i, 'cfg == %d' % c, 'li < 7'] for i in range(4) for c in (0, 8)],
                't': [['ci == %d' % i, 'cfg == %d' % c, 'li < 7'] for i in range(4) for c in (0, 8)] + [['ci == 0', 'cfg == 8', 'li == 7']]})
def iterated(ci: int, cfg: int, li: int, salt: bytes, p0: int, p1: int) -> bool:
    """
    pre: 0 <= ci < 4
    pre: cfg in (0, 8)
    pre: 0 <= li < 8
    pre: len(salt) == 8
    pre: 0 <= p0 < 256 and 0 <= p1 < 256
    post: _
    """
    coded = (0, 1, 16, 17)[ci]
    tl = (0, 1, 6, 7, 13, 22, 54, 1100)[li]
    pw = bytes([p0, p1]) + TAIL[:tl]
    h, c = CONFIGS[cfg]
    return run_case(3, h, c, salt, pw, coded)


# ------------------------------------------------------------------------------------ O12.1 (Engine A): arithmetic slice
def arithmetic_slice():
    """slice derive_key's current source down to the statements that compute count / hcount / hleft and rewrite
    len(hsalt + hpass) -> L, self.count -> dcount, (self.specifier == ...Iterated) -> iterated"""
    src = textwrap.dedent(inspect.getsource(String2Key.derive_key))
    fdef = ast.parse(src).body[0]
    keep = []
    wanted = {'count', 'hcount', 'hleft'}

    def assigns(node):
        out = set()
        for n in ast.walk(node):
            if isinstance(n, (ast.Assign, ast.AugAssign)):
                for t in (n.targets if isinstance(n, ast.Assign) else [n.target]):
                    if isinstance(t, ast.Name):
                        out.add(t.id)
        return out

    for st in fdef.body:
        if isinstance(st, (ast.Assign, ast.AugAssign, ast.If)) and assigns(st) and assigns(st) <= wanted:
            keep.append(st)
    if not keep or not ({'count', 'hcount', 'hleft'} <= set().union(*[assigns(s) for s in keep])):
        raise astsmt.Untranslatable('derive_key: count/hcount/hleft statements not found')

    class Rw(ast.NodeTransformer):
        def visit_Call(self, node):
            if isinstance(node.func, ast.Name) and node.func.id == 'len' and ast.unparse(node.args[0]).replace(' ', '') in ('hsalt+hpass', '(hsalt+hpass)'):
                return ast.Name('L', ast.Load())
            return self.generic_visit(node)

        def visit_Attribute(self, node):
            if ast.unparse(node) == 'self.count':
                return ast.Name('dcount', ast.Load())
            return self.generic_visit(node)

        def visit_Compare(self, node):
            txt = ast.unparse(node)
            if txt in ('self.specifier == String2KeyType.Iterated',):
                return ast.Name('iterated', ast.Load())
            return self.generic_visit(node)

    keep = [Rw().visit(s) for s in keep]
    for s in keep:
        for n in ast.walk(s):
            if isinstance(n, ast.Attribute) and isinstance(n.value, ast.Name) and n.value.id == 'self':
                raise astsmt.Untranslatable('unexpected use of self.%s in the arithmetic slice' % n.attr)
    ret = ast.Return(ast.Tuple([ast.Name('count', ast.Load()), ast.Name('hcount', ast.Load()), ast.Name('hleft', ast.Load())], ast.Load()))
    f = ast.FunctionDef('s2k_arith', ast.arguments(posonlyargs=[], args=[ast.arg('L'), ast.arg('dcount'), ast.arg('iterated')],
                                                   kwonlyargs=[], kw_defaults=[], defaults=[]), keep + [ret], [], lineno=1, col_offset=0)
    ast.fix_missing_locations(f)
    return f


def decode_count_term(tr, c):
    """String2Key.count's getter translated from source with _count = c"""
    getter = String2Key.__dict__['count'].fget
    src = textwrap.dedent(inspect.getsource(getter))
    # the property source includes decorators; find the plain getter def
    fdef = [n for n in ast.parse(src).body if isinstance(n, ast.FunctionDef)][0]

    class Rw(ast.NodeTransformer):
        def visit_Attribute(self, node):
            if ast.unparse(node) == 'self._count':
                return ast.Name('c', ast.Load())
            return self.generic_visit(node)
    fdef = Rw().visit(fdef)
    fdef.args.args = [ast.arg('c')]
    fdef.decorator_list = []
    ast.fix_missing_locations(fdef)
    tr.ctx.functions.add('pgpy.packet.fields.String2Key.count')
    return tr.run_def(fdef, [c], {}, {}, z3.BoolVal(True), {})


def replay_arith(L, coded, iterated_):
    """native: run the real derive_key with a recording hash and check stream length / structure"""
    spec = 3 if iterated_ else 0
    salt = b'\x01' * 8 if iterated_ else b''
    if iterated_ and L < 8:
        return True
    pw = TAIL[:L - len(salt)] if L - len(salt) <= len(TAIL) else (TAIL * (L // len(TAIL) + 1))[:L - len(salt)]
    try:
        return run_case(spec, 2, 7, salt, pw, coded)
    except ZeroDivisionError:
        return False


@ob('O12.1', 'stream arithmetic for every passphrase length and coded count: count = max(decoded, L) if iterated else L; '
             'hcount*L + hleft = count; 0 <= hleft < L; at least one full copy; no division by zero',
    'L unbounded (every L >= 0 for non-iterated, L >= 8 for iterated: the salt), coded count 0..255; Engine A on the count/hcount/hleft statements sliced from derive_key',
    engine='A')
def o12_1(tier):
    f = arithmetic_slice()

    def build(tr):
        L, c = z3.Int('L'), z3.Int('c')
        it = z3.Bool('iterated')
        pre = [L >= 0, c >= 0, c <= 255, z3.Implies(it, L >= 8)]
        dcount = decode_count_term(tr, c)
        spec_d = (16 + c % 16) * tr.pow2(c / 16 + 6, 21)
        tr.ctx.functions.add('pgpy.packet.fields.String2Key.derive_key[count/hcount/hleft slice]')
        count, hcount, hleft = tr.run_def(f, [L, dcount, it], {}, {}, z3.BoolVal(True), {})
        count, hcount, hleft = [astsmt.to_term(tr.ctx, v) for v in (count, hcount, hleft)]
        want = z3.If(z3.And(it, spec_d > L), spec_d, L)
        claim = z3.And(dcount == spec_d, count == want, hcount * L + hleft == count, hleft >= 0,
                       z3.Implies(L > 0, z3.And(hleft < L, hcount >= 1)), z3.Implies(L == 0, z3.And(hcount == 0, hleft == 0)))
        return pre, claim, {'L': L, 'c': c, 'iterated': it}
    res = astsmt.check_claim(build, lambda v: 'replay_arith(%d, %d, %r)' % (v['L'], v['c'], bool(v['iterated'])),
                             cross=(tier == 'thorough'), maxbits=32, timeout_s=120)
    # translator validation on concrete vectors (the repo's own S2K test lengths and boundaries): the translated slice against the
    # same slice compiled and run natively (NOT against the specification: on a changed tree the two legitimately differ from it)
    ns = {}
    mod = ast.Module([f], [])
    ast.fix_missing_locations(mod)
    exec(compile(mod, '<s2k_arith slice>', 'exec'), ns)
    getter = String2Key.__dict__['count'].fget

    class _C:
        pass
    n = 0
    for L in (0, 1, 7, 8, 9, 11, 64, 1023, 1024, 1025, 65536, 70000):
        for c in (0, 1, 15, 16, 96, 254, 255):
            for it in (False, True):
                if it and L < 8:
                    continue
                ctx = astsmt.Ctx(maxbits=32)
                tr = astsmt.Translator(ctx)
                d = decode_count_term(tr, c)
                got = tr.run_def(f, [L, d, it], {}, {}, z3.BoolVal(True), {})
                o = _C()
                o._count = c
                try:
                    want = ns['s2k_arith'](L, getter(o), it)
                except ZeroDivisionError:
                    continue                      # the translator reports this through its own side obligation
                if tuple(int(x) for x in got) != tuple(want):
                    raise astsmt.Untranslatable('translator disagrees with native execution of the slice at %r: %r vs %r' % ((L, c, it), got, want))
                n += 1
    res['validated'] = n
    return res


SANITY = ['simple_salted(%d, %d, b"12345678", b"ab")' % (s, c) for s in (0, 1) for c in range(len(CONFIGS))] + [
    'simple_salted(0, 1, b"12345678", b"")', 'simple_salted(1, 0, b"\\x00\\xff\\x80\\x7f\\x01\\x02\\x03\\x04", b"\\xc3\\xa9\\x00")',
    'iterated(0, 0, 0, b"12345678", 1, 2)', 'iterated(1, 8, 2, b"12345678", 1, 2)', 'iterated(3, 0, 5, b"abcdefgh", 0, 255)',
    'iterated(2, 8, 4, b"abcdefgh", 0, 255)', 'iterated(0, 8, 7, b"abcdefgh", 0, 255)', 'iterated(0, 0, 3, b"abcdefgh", 1, 2)', 'iterated(1, 8, 4, b"abcdefgh", 1, 2)', 'iterated(0, 0, 1, b"abcdefgh", 7, 7)',
    'text_passphrase(0, b"12345678", "a ")', 'text_passphrase(1, b"12345678", "\\n")', 'text_passphrase(1, b"12345678", "\\u00e9\\t")', 'replay_arith(0, 0, False)', 'replay_arith(5, 0, False)', 'replay_arith(1100, 0, True)', 'replay_arith(20, 17, True)']
