"""C20 - messages are well-formed OpenPGP compositions and keep content and metadata (DESIGN.md 3/C20)."""
from datetime import datetime, timezone

from vlib.h import ob, native
from harness.sigfix import *          # noqa
from harness import encfix
from harness.encfix import Cipher, Feed
from pgpy import PGPMessage
from pgpy.packet import Packet
import pgpy.constants as K

install_oracle()
encfix.install()

FUNCTIONS_ENCODED = ['pgpy.pgp.PGPMessage.__iter__', 'pgpy.pgp.PGPMessage.__bytearray__', 'pgpy.pgp.PGPMessage.__or__', 'pgpy.pgp.PGPMessage.parse',
                     'pgpy.pgp.PGPMessage.new', 'pgpy.pgp.PGPSignature.make_onepass', 'pgpy.packet.packets.OnePassSignatureV3.__bytearray__',
                     'pgpy.packet.packets.OnePassSignatureV3.parse', 'pgpy.packet.packets.LiteralData.__bytearray__', 'pgpy.packet.packets.LiteralData.parse',
                     'pgpy.packet.packets.CompressedData.__bytearray__', 'pgpy.packet.packets.CompressedData.parse', 'pgpy.pgp.PGPMessage.encrypt',
                     'pgpy.types.SorteDeque.insort', 'pgpy.packet.types.Header.parse (old format, partial lengths)']
STUBS = ['signatures are fabricated (no cryptography): PGPSignature.new + fixed signature integers',
         'CompressionAlgorithm.compress/decompress -> identity (O20.3): zlib/bz2 are C code', 'cipher / S2K / entropy stand-ins of harness/encfix.py for encrypted messages']
OUTSIDE = ['that zlib / bz2 round-trip content (zlib.compress(data)[2:-4] <-> decompress(.., -15) is a statement about C libraries)', 'bodies beyond a few octets; megabytes',
           'modification time: five boundary values only (datetime is C code)', 'character-set transcoding of text content']
ASSUMPTIONS = ['RFC 4880 11.3 grammar and 5.4 (flag octet zero = another one-pass packet follows)']

T1 = datetime.fromtimestamp(1_600_000_100, timezone.utc)
TIMES = (T0, T0, T1)
HASHES = (HashAlgorithm.SHA1, HashAlgorithm.SHA256, HashAlgorithm.SHA512)
SIGNERS = (KEY.fingerprint.keyid, KEY2.fingerprint.keyid, SUBID)


def fab_sig(ti, hi, si, tag):
    sig = PGPSignature.new(SignatureType.BinaryDocument, PubKeyAlgorithm.EdDSA, HASHES[hi], SIGNERS[si], created=TIMES[ti])
    sig._signature.signature.from_signer(bytes([tag]) * 64)
    sig._signature.update_hlen()
    return sig


def split_packets(data):
    """independent splitter: list of (tag, body) from new/old-format headers (definite lengths only)"""
    out = []
    i = 0
    n = len(data)
    while i < n:
        t = data[i]
        if t < 128:
            return None
        i += 1
        if t >= 192:
            tag = t - 192
            f = data[i]
            if f < 192:
                ln = f
                i += 1
            elif f < 224:
                ln = (f - 192) * 256 + data[i + 1] + 192
                i += 2
            elif f == 255:
                ln = data[i + 1] * 16777216 + data[i + 2] * 65536 + data[i + 3] * 256 + data[i + 4]
                i += 5
            else:
                return None
        else:
            tag = (t - 128) // 4
            lt = t % 4
            if lt == 0:
                ln = data[i]
                i += 1
            elif lt == 1:
                ln = data[i] * 256 + data[i + 1]
                i += 2
            elif lt == 2:
                ln = data[i] * 16777216 + data[i + 1] * 65536 + data[i + 2] * 256 + data[i + 3]
                i += 4
            else:
                ln = n - i
        if i + ln > n:
            return None
        out.append((tag, bytes(data[i:i + ln])))
        i += ln
    return out


def grammar_ok(pkts, n, content):
    """OPS^n Literal Sig^n with OPS_j matching Sig_(n+1-j) and the flag octet non-zero on the last OPS only"""
    if pkts is None or len(pkts) != 2 * n + 1:
        return False
    for j in range(n):
        if pkts[j][0] != 4 or pkts[n + 1 + j][0] != 2:
            return False
    if pkts[n][0] != 11:
        return False
    lit = pkts[n][1]
    fnl = lit[1]
    if bytes(lit[6 + fnl:]) != bytes(content):
        return False
    for j in range(n):
        ops = pkts[j][1]
        sig = pkts[2 * n - j][1]
        if len(ops) != 13 or ops[0] != 3:
            return False
        # v4 signature body: 04 type pk hash ...; issuer taken from the unhashed Issuer subpacket at the end of the subpacket areas
        if sig[0] != 4 or ops[1] != sig[1] or ops[2] != sig[3] or ops[3] != sig[2]:
            return False
        hl = sig[4] * 256 + sig[5]
        ul_at = 6 + hl
        ul = sig[ul_at] * 256 + sig[ul_at + 1]
        unh = sig[ul_at + 2:ul_at + 2 + ul]
        if len(unh) < 10 or unh[1] != 16 or bytes(unh[2:10]) != bytes(ops[4:12]):
            return False
        last = (j == n - 1)
        if (ops[12] != 0) != last:
            return False
    return True


@ob('O20.1', 'signed message grammar: n one-pass packets, one literal packet, n signatures; one-pass packet j describes signature n+1-j '
             '(type, hash, public-key algorithm, issuer); only the last one-pass packet has a non-zero flag octet',
    'n in 0..3 signers; per signer: creation time from {t, t, t+100} (ties), hash from 3, issuer from 3 key ids - all by symbolic index; content of 0..2 symbolic octets',
    cond_timeout={'q': 280, 't': 1200},
    partitions={'q': [['n <= 1']] + [['n == 2', 'h0 == 0 and h1 == 1', 't0 == %d' % a] for a in range(3)] + [['n == 3', 'h0 == 0 and h1 == 1 and h2 == 2', 's0 == 0 and s1 == 1 and s2 == 2']],
                't': [['n <= 1'], ['n == 2', 'h0 == 0'], ['n == 2', 'h0 == 1'], ['n == 2', 'h0 == 2']] + [['n == 3', 't0 == %d' % a, 's0 == 0 and s1 == 1 and s2 == 2'] for a in range(3)]})
def grammar(n: int, content: bytes, t0: int, t1: int, t2: int, h0: int, h1: int, h2: int, s0: int, s1: int, s2: int) -> bool:
    """
    pre: 0 <= n <= 3
    pre: len(content) <= 2
    pre: 0 <= t0 < 3 and 0 <= t1 < 3 and 0 <= t2 < 3
    pre: 0 <= h0 < 3 and 0 <= h1 < 3 and 0 <= h2 < 3
    pre: 0 <= s0 < 3 and 0 <= s1 < 3 and 0 <= s2 < 3
    pre: n >= 1 or (t0 == 0 and h0 == 0 and s0 == 0)
    pre: n >= 2 or (t1 == 0 and h1 == 0 and s1 == 0)
    pre: n >= 3 or (t2 == 0 and h2 == 0 and s2 == 0)
    post: _
    """
    msg = PGPMessage.new(bytes(content), compression=K.CompressionAlgorithm.Uncompressed, file=False, format='b')
    params = ((t0, h0, s0), (t1, h1, s1), (t2, h2, s2))
    for i in range(3):
        if i < n:
            ti, hi, si = params[i]
            # concrete choices per path
            for a in range(3):
                for b in range(3):
                    for c in range(3):
                        if ti == a and hi == b and si == c:
                            msg |= fab_sig(a, b, c, i + 1)
    out = bytes(msg.__bytearray__())
    return grammar_ok(split_packets(out), n, content)


MT = (0, 1, 2 ** 31 - 1, 2 ** 31, 2 ** 32 - 1)


@ob('O20.2', 'literal metadata round trip: importing the export gives the same content octets, format, file name, time, compression setting and signatures',
    'content of 0..3 symbolic octets; format from {b,t,u,l,1,m} (the RFC 4880 / RFC 1991 markers and the MIME marker of later drafts); file name from {"", "_CONSOLE", 1..2 symbolic ASCII characters}; time from 5 boundary values; 0..1 signatures',
    cond_timeout={'q': 280, 't': 900}, partitions=[['fi == %d' % i] for i in range(6)])
def metadata_roundtrip(content: bytes, fi: int, fsel: int, fname: str, mi: int, signed: bool) -> bool:
    """
    pre: len(content) <= 3
    pre: 0 <= fi < 6
    pre: 0 <= fsel < 3
    pre: 1 <= len(fname) <= 2
    pre: all(32 <= ord(ch) < 127 for ch in fname)
    pre: 0 <= mi < 5
    post: _
    """
    fmt = 'b'
    for k, v in enumerate(('b', 't', 'u', 'l', '1', 'm')):
        if fi == k:
            fmt = v
    if fmt != 'b':
        for b in content:
            if b >= 128:
                return True            # text formats: content must be decodable text (C20: under the message's character encoding)
    msg = PGPMessage.new(bytes(content), compression=K.CompressionAlgorithm.Uncompressed, file=False, format=fmt)
    lit = msg._message
    name = ('', '_CONSOLE', fname)[fsel]
    lit.filename = name
    mt = 0
    for k in range(5):
        if mi == k:
            mt = MT[k]
    lit.mtime = mt
    lit.update_hlen()
    if signed:
        msg |= fab_sig(0, 1, 0, 7)
    wire = bytes(msg.__bytearray__())
    rx = PGPMessage.from_blob(wire)
    m2 = rx._message
    ok = bytes(m2._contents) == bytes(lit._contents) and m2.format == fmt and m2.filename == name
    ok = ok and int(m2.mtime.timestamp()) == mt and rx._compression == msg._compression
    ok = ok and len(rx._signatures) == (1 if signed else 0)
    if signed:
        ok = ok and bytes(rx._signatures[0].__bytearray__()) == bytes(msg._signatures[0].__bytearray__())
    return ok and bytes(rx.__bytearray__()) == wire and rx.is_sensitive == (name == '_CONSOLE')


# ------------------------------------------------------------------------------------ O20.3 compression wrapper (identity compressor)
_REAL_COMPRESS = K.CompressionAlgorithm.compress
_REAL_DECOMPRESS = K.CompressionAlgorithm.decompress
K.CompressionAlgorithm.compress = lambda self, data: data
K.CompressionAlgorithm.decompress = lambda self, data: data


@ob('O20.3', 'compression wraps the whole signed sequence: one compressed packet (tag 8, algorithm octet) whose content is the complete '
             'one-pass / literal / signature sequence; importing it returns the same message',
    'compression algorithm from {ZIP, ZLIB, BZ2} with an identity compressor stand-in; n in 0..2 signers; content of 0..2 symbolic octets',
    cond_timeout={'q': 280, 't': 900}, partitions=[['n == %d' % i] for i in range(3)])
def compression_wrapper(ci: int, n: int, content: bytes) -> bool:
    """
    pre: 0 <= ci < 3
    pre: 0 <= n <= 2
    pre: len(content) <= 2
    post: _
    """
    calg = (K.CompressionAlgorithm.ZIP, K.CompressionAlgorithm.ZLIB, K.CompressionAlgorithm.BZ2)[ci]
    msg = PGPMessage.new(bytes(content), compression=calg, file=False, format='b')
    for i in range(2):
        if i < n:
            msg |= fab_sig(i, i, i, i + 1)
    out = bytes(msg.__bytearray__())
    outer = split_packets(out)
    if outer is None or len(outer) != 1 or outer[0][0] != 8 or outer[0][1][0] != int(calg):
        return False
    if not grammar_ok(split_packets(outer[0][1][1:]), n, content):
        return False
    rx = PGPMessage.from_blob(out)
    a = sorted(bytes(x.__bytearray__()) for x in msg._signatures)
    b = sorted(bytes(x.__bytearray__()) for x in rx._signatures)
    # (signatures with equal creation times may change places on import: the property asks for the same multiset)
    return rx._compression == calg and bytes(rx.message) == bytes(content) and a == b and len(bytes(rx.__bytearray__())) == len(out)


# ------------------------------------------------------------------------------------ O20.4 foreign encodings
@ob('O20.4', 'foreign encodings: a literal packet with an old-format header (1/2/4-octet length) or new-format partial body lengths imports to the same content',
    'header form from {old-1, old-2, old-4, new-5-octet, partial 2+1+rest, one partial chunk of 2^16 octets + rest}; content of 3..5 symbolic octets (last form: first octet from {00,01,80,FF} by symbolic choice, then 64 KiB of concrete filler, run natively)',
    cond_timeout={'q': 280, 't': 900}, partitions=[['form == %d' % i] for i in range(6)])
def foreign_literal(form: int, content: bytes) -> bool:
    """
    pre: 0 <= form < 6
    pre: 3 <= len(content) <= 5
    post: _
    """
    if form == 5:
        # 64 KiB of symbolic structure does not finish: the content is concrete filler behind one octet picked per path, and runs natively
        first = 0
        for k, v in enumerate((0, 1, 0x80, 0xFF)):
            if content[0] % 4 == k:
                first = v
        with native():
            filler = bytes((i * 7 + 1) % 250 for i in range(65536 + 3))
            data = bytes([first]) + filler
            body = b'b\x00\x00\x00\x00\x00' + data
            pkt = bytes([0xCB, 0xF0]) + body[:65536] + bytes([len(body) - 65536]) + body[65536:]
            rx = PGPMessage.from_blob(pkt)
            if bytes(rx.message) != data or rx._message.format != 'b':
                return False
            out = split_packets(bytes(rx.__bytearray__()))
            return out is not None and len(out) == 1 and out[0][0] == 11 and bytes(out[0][1][6:]) == data
    body = b'b\x00\x00\x00\x00\x00' + bytes(content)
    n = len(body)
    if form == 0:
        pkt = bytes([0xAC, n]) + body
    elif form == 1:
        pkt = bytes([0xAD, 0, n]) + body
    elif form == 2:
        pkt = bytes([0xAE, 0, 0, 0, n]) + body
    elif form == 3:
        pkt = bytes([0xCB, 255, 0, 0, 0, n]) + body
    else:
        pkt = bytes([0xCB, 0xE1]) + body[:2] + bytes([0xE0]) + body[2:3] + bytes([n - 3]) + body[3:]
    rx = PGPMessage.from_blob(pkt)
    if bytes(rx.message) != bytes(content) or rx._message.format != 'b':
        return False
    # re-export is a well-formed single literal packet with the same content
    out = split_packets(bytes(rx.__bytearray__()))
    return out is not None and len(out) == 1 and out[0][0] == 11 and bytes(out[0][1][6:]) == bytes(content)


@ob('O20.5', 'encrypted message grammar: session-key packet(s) first, then exactly one encrypted container; signed-then-encrypted keeps the inner signed sequence',
    'passphrase-encrypted message; 0..1 signer; content of 0..2 symbolic octets; cipher from {CAST5, AES128, AES256}', cond_timeout={'q': 280, 't': 900}, flags=('lazyhex',))
def encrypted_grammar(ci: int, signed: bool, content: bytes) -> bool:
    """
    pre: 0 <= ci < 3
    pre: len(content) <= 2
    post: _
    """
    alg = (K.SymmetricKeyAlgorithm.CAST5, K.SymmetricKeyAlgorithm.AES128, K.SymmetricKeyAlgorithm.AES256)[ci]
    msg = PGPMessage.new(bytes(content), compression=K.CompressionAlgorithm.Uncompressed, file=False, format='b')
    if signed:
        msg |= fab_sig(0, 1, 0, 5)
    Cipher.reset()
    Feed.reset([])
    enc = msg.encrypt('pw', cipher=alg)
    pkts = split_packets(bytes(enc.__bytearray__()))
    if pkts is None or len(pkts) != 2 or pkts[0][0] != 3 or pkts[1][0] != 18:
        return False
    if pkts[0][1][0] != 4 or pkts[0][1][1] != int(alg) or pkts[1][1][0] != 1:
        return False
    # what went into the cipher for the data packet: prefix || repeat || inner message || MDC
    inner = [e for e in Cipher.log if e[0] == 'enc'][-1][1]
    bs = alg.block_size // 8
    plain = inner[bs + 2:len(inner) - 22]
    return grammar_ok(split_packets(plain), 1 if signed else 0, content) and inner[bs - 2:bs] == inner[bs:bs + 2]


SANITY = ['grammar(0, b"ab", 0, 0, 0, 0, 0, 0, 0, 0, 0)', 'grammar(1, b"", 2, 0, 0, 1, 0, 0, 1, 0, 0)', 'grammar(2, b"x", 0, 1, 0, 0, 1, 0, 0, 1, 0)',
          'grammar(3, b"x", 0, 1, 2, 0, 1, 2, 0, 1, 2)', 'grammar(3, b"x", 2, 0, 1, 2, 2, 0, 1, 1, 1)',
          'metadata_roundtrip(b"abc", 0, 0, "f", 0, False)', 'metadata_roundtrip(b"ab", 3, 0, "f", 1, False)', 'metadata_roundtrip(b"ab", 4, 2, "g", 1, True)', 'metadata_roundtrip(b"a", 5, 0, "f", 1, False)', 'metadata_roundtrip(b"a\\n", 1, 1, "f", 3, True)', 'metadata_roundtrip(b"", 2, 2, "a.", 4, True)',
          'metadata_roundtrip(b"\\xff", 0, 2, "zz", 2, False)', 'compression_wrapper(0, 0, b"a")', 'compression_wrapper(1, 2, b"ab")', 'compression_wrapper(2, 1, b"")',
          'foreign_literal(0, b"abc")', 'foreign_literal(1, b"abcd")', 'foreign_literal(2, b"abcde")', 'foreign_literal(3, b"abc")', 'foreign_literal(4, b"abcde")', 'foreign_literal(5, b"abc")',
          'encrypted_grammar(0, False, b"a")', 'encrypted_grammar(2, True, b"ab")']
