"""C04 - ciphertext integrity: tampered or mis-keyed encrypted messages never decrypt (DESIGN.md 3/C04).

Whatever an attacker does to ciphertext or key, an ideal cipher yields *some* plaintext pt'.  PGPy must accept exactly the pt'
that RFC 4880 5.13 / 5.1 accept and return exactly that payload; everything else raises."""
from vlib.h import ob, native
from harness.encfix import *          # noqa
from harness import encfix
from pgpy import PGPMessage, PGPKey
from pgpy.packet.packets import IntegrityProtectedSKEDataV1, PKESessionKeyV3, SKESessionKeyV4
from pgpy.constants import PubKeyAlgorithm

encfix.install()

FUNCTIONS_ENCODED = ['pgpy.packet.fields.String2Key.derive_key (passphrase encoding)', 'pgpy.packet.packets.IntegrityProtectedSKEDataV1.decrypt', 'pgpy.packet.packets.IntegrityProtectedSKEDataV1.encrypt',
                     'pgpy.packet.packets.PKESessionKeyV3.decrypt_sk', 'pgpy.packet.packets.SKESessionKeyV4.decrypt_sk',
                     'pgpy.pgp.PGPMessage.decrypt', 'pgpy.pgp.PGPMessage.encrypt', 'pgpy.pgp.PGPMessage.parse', 'pgpy.pgp.PGPKey.decrypt',
                     'pgpy.packet.packets.MDC.parse', 'pgpy.packet.fields.String2Key.derive_key']
STUBS = ['symmetric cipher -> ideal model: right key returns the plaintext, anything else returns an arbitrary symbolic octet string',
         'SHA-1 (MDC) -> collision-free stand-in on inputs <= 19 octets (input || padding || length); edge function beyond',
         'String2Key.derive_key -> recording stand-in (key = f(passphrase, salt)); RSA decryption -> returns a symbolic octet string m']
OUTSIDE = ['that AES/3DES/CAST5/... in CFB mode behave like the ideal cipher, and SHA-1 like a collision-free function',
           'malleability of CFB+MDC under known plaintext (a property of OpenPGP, not of PGPy)', 'ECDH key unwrap (AES-KW integrity, PKCS#5 unpadding: C code)']
ASSUMPTIONS = ['RFC 4880 5.13: accept iff trailer is D3 14 || SHA-1(everything before the 20 hash octets) and prefix octets bs-2..bs-1 repeat at bs..bs+1']


def rfc_accepts(pt, bs):
    n = len(pt)
    if n < bs + 2 + 22:
        return False
    if pt[n - 22] != 0xD3 or pt[n - 21] != 0x14:
        return False
    if bytes(pt[n - 20:]) != inj_digest(bytes(pt[:n - 20])):
        return False
    return pt[bs - 2] == pt[bs] and pt[bs - 1] == pt[bs + 1]


@ob('O4.1', 'integrity-protected data: decrypt returns iff the RFC predicate holds on the decrypted octets, and then returns exactly the octets after '
            'the prefix; otherwise it raises PGPDecryptionError', 'decrypted octet string pt\' fully symbolic, length 32..34 / 40..41 (quick), 32..40 / 40..46 (thorough) for block sizes 8 / 16',
    cond_timeout={'q': 280, 't': 1200},
    partitions={'q': [['bs == 8', 'len(pt) == %d' % n] for n in (32, 33, 34)] + [['bs == 16', 'len(pt) == %d' % n] for n in (40, 41)],
                't': [['bs == 8', 'len(pt) == %d' % n] for n in range(32, 41)] + [['bs == 16', 'len(pt) == %d' % n] for n in range(40, 47)]})
def seipd_accept(bs: int, pt: bytes) -> bool:
    """
    pre: bs in (8, 16)
    pre: bs + 24 <= len(pt) <= bs + 32
    post: _
    """
    alg = SymmetricKeyAlgorithm.CAST5 if bs == 8 else SymmetricKeyAlgorithm.AES128
    Cipher.reset()
    Cipher.adversarial = [bytes(pt)]
    pkt = IntegrityProtectedSKEDataV1()
    pkt.ct = bytearray(b'\x01\x02\x03')
    try:
        out = pkt.decrypt(b'k' * 16, alg)
    except PGPDecryptionError:
        return not rfc_accepts(pt, bs)
    return rfc_accepts(pt, bs) and bytes(out) == bytes(pt[bs + 2:])


@ob('O4.1b', 'the verdict on an integrity-protected packet does not depend on earlier attempts on the same object: decrypting the same packet object again '
             '(a "decryption failed - retry?" flow) raises again if it raised, and returns the same octets if it returned',
    'decrypted octet string symbolic, length 32..33 (block size 8); same key both times; cipher stand-in hands back the same string', cond_timeout={'q': 280, 't': 900},
    partitions=[['len(pt) == 32'], ['len(pt) == 33']])
def seipd_retry(pt: bytes) -> bool:
    """
    pre: 32 <= len(pt) <= 33
    post: _
    """
    Cipher.reset()
    Cipher.adversarial = [bytes(pt), bytes(pt), bytes(pt)]
    pkt = IntegrityProtectedSKEDataV1()
    pkt.ct = bytearray(b'\x01\x02\x03')
    outs = []
    for attempt in range(2):
        try:
            outs.append(bytes(pkt.decrypt(b'k' * 16, SymmetricKeyAlgorithm.CAST5)))
        except PGPDecryptionError:
            outs.append(None)
    Cipher.adversarial = None
    return outs[0] == outs[1] and (outs[0] is None) == (not rfc_accepts(pt, 8))


LARGE = (8192, 8211, 8212, 8213, 16404, 24596)          # 8192*k + 20: the hashed part (everything but the 20 hash octets) is a multiple of 8192
FLIPS = (None, 10, 100, 4000, 8000, -23, -30, 8190)


def _seipd_large(n, pos):
    pre = bytes(range(8)) + bytes([6, 7]) + bytes((i * 11 + 5) % 256 for i in range(n - 10 - 22))
    import hashlib as _real_hashlib
    import pgpy.packet.packets as _P
    body = pre + b'\xd3\x14'
    pt = bytearray(body + _real_hashlib.sha1(body).digest())       # (the stand-in digest is injective on short inputs only: the real SHA-1 here, natively)
    if len(pt) != n:
        return False
    if pos is not None:
        pt[pos if pos >= 0 else n + pos] ^= 1
    Cipher.reset()
    Cipher.adversarial = [bytes(pt)]
    pkt = IntegrityProtectedSKEDataV1()
    pkt.ct = bytearray(b'\x01\x02\x03')
    saved = _P.hashlib
    _P.hashlib = _real_hashlib
    try:
        out = pkt.decrypt(b'k' * 16, SymmetricKeyAlgorithm.CAST5)
    except PGPDecryptionError:
        return pos is not None
    finally:
        _P.hashlib = saved
        Cipher.adversarial = None
    return pos is None and bytes(out) == bytes(pt[10:])


@ob('O4.1c', 'integrity-protected streams of several kilobytes, in particular of a length that is a multiple of 8192: the well-formed stream is accepted and returned, '
             'the same stream with one changed octet anywhere before the hash is refused',
    'stream length by symbolic index from {8192, 8211, 8212, 8213, 16404, 24596} (hashed part 8192*k and its neighbours); changed octet from {none, 10, 100, 4000, 8000, 8190, n-30, n-23}; concrete filler; real SHA-1; native per path',
    cond_timeout={'q': 200, 't': 600})
def seipd_large(li: int, pi: int) -> bool:
    """
    pre: 0 <= li < 6
    pre: 0 <= pi < 8
    post: _
    """
    a = b = 0
    for k in range(6):
        if li == k:
            a = k
    for k in range(8):
        if pi == k:
            b = k
    with native():
        return _seipd_large(LARGE[a], FLIPS[b])


@ob('O4.1-short', 'integrity-protected data, decrypted strings shorter than prefix+MDC: never accepted unless the last 22 octets are D3 14 || hash of everything '
                  'before the hash (PGPy has no minimum-length check; such strings cannot be produced without the session key)',
    'pt\' symbolic, length 0..31 (block size 8)', cond_timeout={'q': 280, 't': 900},
    partitions=[['len(pt) <= 8'], ['8 < len(pt) <= 20'], ['20 < len(pt) <= 26'], ['26 < len(pt) <= 31']])
def seipd_short(pt: bytes) -> bool:
    """
    pre: len(pt) <= 31
    post: _
    """
    Cipher.reset()
    Cipher.adversarial = [bytes(pt)]
    pkt = IntegrityProtectedSKEDataV1()
    pkt.ct = bytearray(b'\x01\x02\x03')
    try:
        pkt.decrypt(b'k' * 16, SymmetricKeyAlgorithm.CAST5)
    except PGPDecryptionError:
        return True
    n = len(pt)
    return n >= 22 and bytes(pt[n - 22:]) == b'\xd3\x14' + inj_digest(bytes(pt[:n - 20]))


class _FakeRSA:
    """stands for pk.keymaterial with an RSA private key whose decrypt returns what the harness wants"""
    def __init__(self, m):
        self._m = m

    def __privkey__(self):
        fake = self

        class _K:
            key_size = 64

            def decrypt(self, ct, pad):
                return bytes(fake._m)
        return _K()


class _FakePK:
    def __init__(self, m):
        self.keymaterial = _FakeRSA(m)


KS = {1: 16, 2: 24, 3: 16, 4: 16, 7: 16, 8: 24, 9: 32, 10: 32, 11: 16, 12: 24, 13: 32}


@ob('O4.2', 'public-key session key: for a block of the right length decrypt_sk returns (cipher, key) iff it is  cipher-id || key || checksum  with a known cipher '
            'and a checksum equal to the octet sum mod 65536, else raises; for blocks one octet short/long whatever is returned carries a matching checksum',
    'decrypted block m symbolic: cipher octet over all 256 values, key octets symbolic (length fitted to the cipher or off by one), checksum octets symbolic',
    cond_timeout={'q': 280, 't': 900}, partitions=[['alg == 7'], ['alg == 9'], ['alg == 2'], ['alg in (1, 3, 4, 8)'], ['alg in (10, 11, 12, 13)'], ['alg not in KS']])
def pkesk_accept(alg: int, key: bytes, c0: int, c1: int, delta: int) -> bool:
    """
    pre: 0 <= alg < 256
    pre: len(key) == (KS[alg] if alg in KS else 16) + delta
    pre: delta in (-1, 0, 1)
    pre: 0 <= c0 < 256 and 0 <= c1 < 256
    post: _
    """
    m = bytes([alg]) + key + bytes([c0, c1])
    pk = PKESessionKeyV3()
    pk.pkalg = PubKeyAlgorithm.RSAEncryptOrSign
    from pgpy.packet.types import MPI
    pk.ct.me_mod_n = MPI(5)
    known = alg in (1, 2, 3, 4, 7, 8, 9, 10, 11, 12, 13)
    try:
        got_alg, got_key = pk.decrypt_sk(_FakePK(m))
    except Exception:
        # must raise whenever the block is not  id || key || checksum  of a known cipher with a matching checksum
        if not known:
            return True
        return delta != 0 or sum(key) % 65536 != c0 * 256 + c1
    if not known:
        return False
    if delta == 0:
        return int(got_alg) == alg and bytes(got_key) == key and sum(key) % 65536 == c0 * 256 + c1
    # blocks of the wrong length (PGPy does not check the length; any sender can choose the block, so this is not an integrity
    # question): whatever is returned must at least be consistent - the cipher of the block and a key whose checksum matched
    rest = m[1 + len(got_key):1 + len(got_key) + 2]
    chk = 0
    for b in rest:
        chk = chk * 256 + b
    return int(got_alg) == alg and bytes(got_key) == m[1:1 + len(got_key)] and sum(got_key) % 65536 == chk


# ------------------------------------------------------------------------------------ message level
def build_encrypted(body, passphrase, sessionkey):
    msg = PGPMessage.new(bytes(body), compression=CompressionAlgorithm.Uncompressed, file=False, format='b')
    return msg.encrypt(passphrase, sessionkey=sessionkey, cipher=SymmetricKeyAlgorithm.CAST5)


def trailer_ok(pt, bs):
    """what any reader of RFC 4880 5.13 checks, without a minimum-length requirement"""
    n = len(pt)
    if n < 22 or pt[n - 22] != 0xD3 or pt[n - 21] != 0x14:
        return False
    if bytes(pt[n - 20:]) != inj_digest(bytes(pt[:n - 20])):
        return False
    return bytes(pt[bs - 2:bs]) == bytes(pt[bs:bs + 2])


ALG_OCTETS = (0, 1, 2, 3, 4, 5, 6, 7, 8, 9, 10, 11, 12, 13, 14, 100, 255)


@ob('O4.4', 'message level: with the right passphrase the original literal body comes back; with a wrong passphrase PGPMessage.decrypt raises '
            'whatever the cipher produces under the wrong key (unless those octets themselves satisfy the integrity predicate)',
    'body of 0..2 symbolic octets; wrong passphrase "" or "q"; what the wrong key decrypts to: a 17-octet session-key block whose cipher octet ranges over 17 values '
    '(all known ids and unknown ones) with symbolic key octets, and a fully symbolic 32-octet data block (for known ciphers restricted to blocks whose MDC marker octet is wrong: '
    'the accepting case is O4.1; parsing accepted garbage as packets explodes the path tree)',
    cond_timeout={'q': 280, 't': 900}, partitions=[['same']] + [['not same', 'ai == %d' % i] + (['g2[10] != 0xD3'] if ALG_OCTETS[i] in (0, 1, 2, 3, 4, 7, 8, 9, 10, 11, 12, 13) else []) for i in range(len(ALG_OCTETS))])
def msg_wrong_passphrase(body: bytes, same: bool, wrongq: bool, ai: int, g1: bytes, g2: bytes) -> bool:
    """
    pre: len(body) <= 2
    pre: 0 <= ai < len(ALG_OCTETS)
    pre: len(g1) == 16 and len(g2) == 32
    post: _
    """
    pw = 'p'
    pw2 = pw if same else ('q' if wrongq else '')
    Cipher.reset()
    Feed.reset([])
    enc = build_encrypted(body, pw, b'S' * 16)
    wire = enc.__bytes__()          # (CrossHair's bytes() stand-in ignores __bytes__)
    rx = PGPMessage.from_blob(wire)
    Cipher.garbage = None
    if same:
        dec = rx.decrypt(pw2)
        return bytes(dec.message) == bytes(body)
    # wrong passphrase: the session-key packet decrypts to garbage, and the data packet (under whatever key results) to g2
    a = ALG_OCTETS[ai]
    Cipher.adversarial = [bytes([a]) + bytes(g1), bytes(g2)]
    try:
        rx.decrypt(pw2)
    except (PGPError, PGPDecryptionError):
        return True
    # only acceptable if the garbage itself is MDC-consistent plaintext for a known cipher
    return a in (1, 2, 3, 4, 7, 8, 9, 10, 11, 12, 13) and trailer_ok(g2, SymmetricKeyAlgorithm(a).block_size // 8)


@ob('O4.5', 'positional mutations of the protected data: changing any single octet of what the cipher protects (prefix, repeated octets, packet octets, '
            'D3 14 marker, hash) makes decryption raise', 'body of 1 octet; symbolic position over the whole protected string and symbolic replacement octet; '
            'collision-free hash stand-in (protected string <= 19 octets before the hash)', cond_timeout={'q': 280, 't': 900},
    partitions=[['%d <= pos < %d' % (a, a + 5)] for a in (0, 5, 10, 15, 20, 25, 30, 35)])
def msg_mutation(pos: int, val: int, r0: int, r1: int) -> bool:
    """
    pre: 0 <= pos < 39
    pre: 0 <= val < 256
    pre: 0 <= r0 < 256 and 0 <= r1 < 256
    post: _
    """
    Cipher.reset()
    Feed.reset([bytes([1, 2, 3, 4, 5, 6, r0, r1])])
    pkt = IntegrityProtectedSKEDataV1()
    data = b'\xcb\x06b\x00\x00\x00\x00\x00'           # 8 octets: prefix(8)+2+8+2 = 20 hashed octets (stand-in hash is collision-free on them)
    pkt.encrypt(b'K' * 16, SymmetricKeyAlgorithm.CAST5, data)
    ct = bytearray(pkt.ct)
    off = 17                                           # model ciphertext = len || key(16) || protected string
    if len(ct) != off + 8 + 2 + len(data) + 22:
        return False
    changed = False
    for k in range(39):
        if pos == k and k < len(ct) - off:
            if ct[off + k] != val:
                ct[off + k] = val
                changed = True
    pkt2 = IntegrityProtectedSKEDataV1()
    pkt2.ct = ct
    try:
        out = pkt2.decrypt(b'K' * 16, SymmetricKeyAlgorithm.CAST5)
    except PGPDecryptionError:
        return changed
    if changed:
        # accepted although an octet differs: only possible if nothing that is checked or returned changed - never for this layout
        return False
    return bytes(out) == data + bytes(pkt.ct[off + 10 + len(data):])


class _Rec:
    log = []

    def __init__(self, name):
        import hashlib as _h
        self.digest_size = _h.new(name).digest_size
        self.data = b''
        _Rec.log.append(self)

    def update(self, b):
        self.data = self.data + bytes(b)

    def digest(self):
        return inj_digest(self.data, self.digest_size)


class _HL:
    new = staticmethod(lambda name, *a, **k: _Rec(name))


K.hashlib = _HL


@ob('O4.6', 'a wrong passphrase cannot lead to the right key: the real key derivation feeds the hash different octets for different passphrases '
            '(so, under a collision-free hash, derives a different key and decryption raises by O4.4)',
    'two passphrases of 0..2 symbolic characters each (all of Unicode, incl. white space); Salted S2K, symbolic salt', cond_timeout={'q': 280, 't': 900},
    partitions=[['len(p1) == %d' % a, 'len(p2) == %d' % b] for a in range(3) for b in range(3)])
def passphrase_separation(p1: str, p2: str, salt: bytes) -> bool:
    """
    pre: len(p1) <= 2 and len(p2) <= 2
    pre: len(salt) == 8
    post: _
    """
    from pgpy.packet.fields import String2Key
    fed = []
    for pw in (p1, p2):
        s = String2Key()
        s.usage = 254
        s.encalg = 7
        s.specifier = 1
        s.halg = 2
        s.salt = bytearray(salt)
        _Rec.log = []
        encfix.REAL_DERIVE_KEY(s, pw)
        fed.append([r.data for r in _Rec.log][-1])
    return (fed[0] != fed[1]) or p1 == p2


PWS = ('pw', 'pw\udc80', '\ud800pw', 'p\udfffw', 'pw ', 'Pw', 'pw\x00', 'p\u1e83', 'pw\udc80\udc81', '')


def _fed_for(pw):
    from pgpy.packet.fields import String2Key
    s = String2Key()
    s.usage = 254
    s.encalg = 7
    s.specifier = 1
    s.halg = 2
    s.salt = bytearray(b'saltsalt')
    _Rec.log = []
    try:
        encfix.REAL_DERIVE_KEY(s, pw)
    except (ValueError, TypeError):            # a string that has no UTF-8 form derives nothing: decryption with it raises
        return None
    return [r.data for r in _Rec.log][-1]


@ob('O4.7', 'strings that are not well-formed text (lone surrogate code points, as os.fsdecode / sys.argv produce for stray octets) never act as another passphrase: '
            'they derive nothing (an error) or a different key-derivation input than every other passphrase of the menu',
    'two passphrases by symbolic index from 10 (a passphrase with a lone surrogate appended / prepended / inserted, two of them, trailing blank, case, NUL, combining form, empty); real derive_key with a recording hash; native per path',
    cond_timeout={'q': 200, 't': 600})
def passphrase_separation_odd(i: int, j: int) -> bool:
    """
    pre: 0 <= i < 10 and 0 <= j < 10
    post: _
    """
    a = b = 0
    for k in range(10):
        if i == k:
            a = k
        if j == k:
            b = k
    with native():
        fa, fb = _fed_for(PWS[a]), _fed_for(PWS[b])
        return a == b or fa is None or fb is None or fa != fb


@ob('O4.reach', 'reachability witnesses (must be REFUTED): the accepting paths of O4.1/O4.2/O4.4 are reachable', 'as the guarded obligations',
    cond_timeout={'q': 200, 't': 200}, expect='refute', partitions=[['k == %d' % i] for i in range(3)])
def never_accepts(k: int, body: bytes) -> bool:
    """
    pre: 0 <= k < 3
    pre: len(body) == 1
    post: _
    """
    if k == 0:
        pre = bytes([9, 8, 7, 6, 5, 4, 3, 2, 3, 2]) + body
        pt = pre + b'\xd3\x14' + inj_digest(pre + b'\xd3\x14')
        Cipher.reset()
        Cipher.adversarial = [pt]
        pkt = IntegrityProtectedSKEDataV1()
        pkt.ct = bytearray(b'x')
        try:
            pkt.decrypt(b'k' * 16, SymmetricKeyAlgorithm.CAST5)
        except PGPDecryptionError:
            return True
        return False
    if k == 1:
        key = body * 16
        s = sum(key) % 65536
        return not pkesk_accept(7, key, s // 256, s % 256, 0) or True and _pk_raises(key)
    Cipher.reset()
    Feed.reset([])
    enc = build_encrypted(body, 'p', b'S' * 16)
    rx = PGPMessage.from_blob(enc.__bytes__())
    try:
        rx.decrypt('p')
    except (PGPError, PGPDecryptionError):
        return True
    return False


def _pk_raises(key):
    s = sum(key) % 65536
    m = bytes([7]) + key + bytes([s // 256, s % 256])
    pk = PKESessionKeyV3()
    pk.pkalg = PubKeyAlgorithm.RSAEncryptOrSign
    from pgpy.packet.types import MPI
    pk.ct.me_mod_n = MPI(5)
    try:
        pk.decrypt_sk(_FakePK(m))
    except Exception:
        return True
    return False


def _good_pt(bs, tail=b'Z'):
    pre = bytes(range(1, bs - 1)) + b'\x41\x42\x41\x42' + tail
    return pre + b'\xd3\x14' + inj_digest(pre + b'\xd3\x14')


SANITY = ['seipd_large(%d, %d)' % (l, p) for l in range(6) for p in (0, 3, 5)] + ['passphrase_separation_odd(0, 1)', 'passphrase_separation_odd(3, 0)', 'passphrase_separation_odd(1, 8)', 'passphrase_separation_odd(9, 2)'] + ['seipd_accept(8, _good_pt(8, b"0123456789"))', 'seipd_accept(8, _good_pt(8, b"012345678") + b"x")', 'seipd_accept(16, _good_pt(16, b"01"))',
          'seipd_accept(8, bytes(32))', 'seipd_short(b"")', 'seipd_short(bytes(31))', 'seipd_short(b"\\xd3\\x14" + bytes(20))', 'seipd_short(b"\\xd3\\x14\\xd3\\x14" + bytes(17) + b"\\x02")',
          'pkesk_accept(7, bytes(16), 0, 0, 0)', 'pkesk_accept(7, bytes(16), 0, 1, 0)', 'pkesk_accept(9, b"\\x01" * 32, 0, 32, 0)',
          'pkesk_accept(200, bytes(16), 0, 0, 0)', 'pkesk_accept(7, bytes(15), 0, 0, -1)', 'pkesk_accept(7, bytes(17), 0, 0, 1)',
          'msg_wrong_passphrase(b"hi", True, False, 0, bytes(16), bytes(32))', 'msg_wrong_passphrase(b"hi", False, True, 7, bytes(16), bytes(32))',
          'msg_wrong_passphrase(b"", False, False, 3, bytes(16), _good_pt(8, b"\\xcb\\x06b\\x00\\x00\\x00\\x00\\x00")[:32])',
          'msg_mutation(0, 1, 7, 8)', 'msg_mutation(0, 9, 7, 8)', 'msg_mutation(18, 0, 7, 8)', 'msg_mutation(19, 0xD3, 7, 8)', 'msg_mutation(38, 0, 7, 8)',
          'msg_mutation(8, 7, 7, 8)', 'msg_mutation(8, 9, 7, 8)', 'passphrase_separation("a", "a ", b"12345678")', 'passphrase_separation("", "\\n", b"12345678")', 'passphrase_separation("x", "x", b"12345678")', 'not never_accepts(0, b"a")', 'not never_accepts(1, b"a")', 'not never_accepts(2, b"a")']
