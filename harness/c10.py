"""C10 - ASCII armor: CRC-24 by induction, CRC line width, wrap arithmetic, block labels (DESIGN.md 3/C10)."""
import ast
import inspect
import textwrap
import warnings

import z3

from vlib.h import ob, native
from vlib import astsmt
from pgpy.types import Armorable, PGPObject
from pgpy import PGPKey, PGPMessage, PGPSignature

warnings.simplefilter('ignore')

FUNCTIONS_ENCODED = ['pgpy.types.Armorable.ascii_unarmor (native, concrete texts)', 'pgpy.types.Armorable.__str__', 'pgpy.types.Armorable.crc24', 'pgpy.types.Armorable.__str__ (wrap expression, constants)',
                     'pgpy.types.PGPObject.int_to_bytes', 'pgpy.pgp.PGPSignature.parse', 'pgpy.pgp.PGPMessage.parse',
                     'pgpy.pgp.PGPKey.parse', 'pgpy.pgp.PGPKey.magic', 'pgpy.pgp.PGPMessage.magic', 'pgpy.pgp.PGPSignature.magic']
STUBS = ['Armorable.ascii_unarmor -> pre-split result with a symbolic block label (O10.4): the armor regular expression is not executed symbolically']
OUTSIDE = ['armor round trip on SYMBOLIC text (O10.5 enumerates concrete payloads only), header lines: '
           'regular expressions on symbolic text are not decidable with this tool (CrossHair re model wrong / non-terminating, probe P14)',
           'base64 itself (C code)']
ASSUMPTIONS = ['CRC-24 reference: RFC 4880 6.1 as a 24-bit MSB-first LFSR with generator 0x864CFB, init 0xB704CE']


# ------------------------------------------------------------------------------------ O10.1 CRC-24 by induction
def crc_parts():
    """split Armorable.crc24's current source into (init expression, per-octet loop body, final return expression)"""
    src = textwrap.dedent(inspect.getsource(Armorable.crc24))
    fdef = [n for n in ast.parse(src).body if isinstance(n, ast.FunctionDef)][0]
    loops = [n for n in fdef.body if isinstance(n, ast.For)]
    if len(loops) != 1 or not isinstance(loops[0].target, ast.Name):
        raise astsmt.Untranslatable('crc24: expected exactly one loop over the data')
    loop = loops[0]
    inits = [n for n in fdef.body if isinstance(n, ast.Assign) and isinstance(n.targets[0], ast.Name) and fdef.body.index(n) < fdef.body.index(loop)]
    rets = [n for n in fdef.body if isinstance(n, ast.Return)]
    if not inits or len(rets) != 1:
        raise astsmt.Untranslatable('crc24: init / return shape')
    state = inits[0].targets[0].id
    return state, inits[0].value, loop.target.id, loop.body, rets[0].value


def mkdef(name, params, body):
    f = ast.FunctionDef(name, ast.arguments(posonlyargs=[], args=[ast.arg(p) for p in params], kwonlyargs=[], kw_defaults=[], defaults=[]),
                        body, [], lineno=1, col_offset=0)
    ast.fix_missing_locations(f)
    return f


def spec_step_bv(crc, b):
    """RFC 4880 6.1 as an MSB-first 24-bit LFSR (independent formulation: test the outgoing bit, then reduce)"""
    for i in range(7, -1, -1):
        bit = z3.Extract(0, 0, z3.LShR(b, i))
        top = z3.Extract(0, 0, z3.LShR(crc, 23))
        crc = (crc << 1) & 0xFFFFFF
        crc = z3.If(top != bit, crc ^ 0x864CFB, crc)
    return crc


def ref_crc(data):
    crc = 0xB704CE
    for byte in data:
        for i in range(7, -1, -1):
            top = (crc >> 23) & 1
            crc = (crc << 1) & 0xFFFFFF
            if top != ((byte >> i) & 1):
                crc ^= 0x864CFB
    return crc


def replay_crc(state, octet):
    """native: the real crc24 agrees with the reference on a message that reaches `state` is not constructible in general;
    replay instead compares real and reference CRC on short messages ending with `octet` (any step error shows on one of them)"""
    for pre in (b'', b'\x00', b'\xff', bytes([state & 0xFF]), bytes([(state >> 8) & 0xFF, (state >> 16) & 0xFF]), b'PGP'):
        m = bytearray(pre + bytes([octet]))
        if Armorable.crc24(m) != ref_crc(m):
            return False
    return True


@ob('O10.1', 'CRC-24 for payloads of every length, by induction: initial value 0xB704CE; the per-octet step of crc24 equals the RFC '
             'LFSR step for every 24-bit state and every octet and keeps the state below 2^24; the final mask is the identity',
    'state in [0, 2^24), octet in [0, 256): all 2^32 pairs (bit-vector encoding, width 32, no-overflow side obligations discharged); '
    'induction over the payload length is the meta-argument', engine='A')
def o10_1(tier):
    state, init_expr, bname, body, ret_expr = crc_parts()
    g = Armorable.crc24.__globals__

    def build(tr):
        crc, b = z3.BitVec('crc', 32), z3.BitVec('b', 32)
        pre = [z3.ULT(crc, 1 << 24), z3.ULT(b, 256)]
        f = mkdef('crc_step', [state, bname], list(body) + [ast.Return(ast.Name(state, ast.Load()))])
        tr.ctx.functions.add('pgpy.types.Armorable.crc24[loop body]')
        out = tr.run_def(f, [crc, b], {}, g, z3.BoolVal(True), {})
        init = tr.run_def(mkdef('crc_init', [], [ast.Return(init_expr)]), [], {}, g, z3.BoolVal(True), {})
        fin = tr.run_def(mkdef('crc_fin', [state], [ast.Return(ret_expr)]), [crc], {}, g, z3.BoolVal(True), {})
        claim = z3.And(out == spec_step_bv(crc, b), z3.ULT(out, 1 << 24), fin == crc, astsmt.to_term(tr.ctx, init) == 0xB704CE)
        return pre, claim, {'crc': crc, 'b': b}
    res = astsmt.check_claim(build, lambda v: 'replay_crc(%d, %d)' % (v['crc'], v['b']), cross=(tier == 'thorough'), bv=32, timeout_s=120)
    # translator validation: the translated step folded over concrete messages equals the real function
    n = 0
    f = mkdef('crc_step', [state, bname], list(body) + [ast.Return(ast.Name(state, ast.Load()))])
    for msg in (b'', b'\x00', b'\xff' * 3, b'123456789', bytes(range(256)), b'\x00' * 48, b'PGP armor'):
        tr = astsmt.Translator(astsmt.Ctx())
        c = tr.run_def(mkdef('crc_init', [], [ast.Return(init_expr)]), [], {}, g, z3.BoolVal(True), {})
        for octet in msg:
            c = tr.run_def(f, [c, octet], {}, g, z3.BoolVal(True), {})
        fin = tr.run_def(mkdef('crc_fin', [state], [ast.Return(ret_expr)]), [c], {}, g, z3.BoolVal(True), {})
        if fin != Armorable.crc24(bytearray(msg)):          # translator vs real function only: the comparison with the RFC is the solver's claim above
            raise astsmt.Untranslatable('translator disagrees with crc24 on %r' % (msg,))
        n += 1
    assert ref_crc(b'123456789') == 0x21CF02            # published CRC-24/OPENPGP check value
    res['validated'] = n + 1
    return res


@ob('O10.2', 'the CRC line carries exactly three octets for every 24-bit CRC (leading zero octets kept) and they decode back to the CRC',
    'crc in [0, 2^24) (full domain)', cond_timeout={'q': 120, 't': 300})
def crc_line(crc: int) -> bool:
    """
    pre: 0 <= crc < 2**24
    post: _
    """
    raw = PGPObject.int_to_bytes(crc, 3)
    return len(raw) == 3 and raw[0] * 65536 + raw[1] * 256 + raw[2] == crc


# ------------------------------------------------------------------------------------ O10.2b CRC line at its call site
import pgpy.types as _T


class _B64Rec:
    """stands in for the base64 module inside pgpy.types: records what is handed to b64encode (base64 itself is C code)"""
    calls = []

    @staticmethod
    def b64encode(data):
        _B64Rec.calls.append(bytes(data))
        return b'QUJD'

    @staticmethod
    def b64decode(data):
        import base64
        return base64.b64decode(data)


class _Blob(Armorable):
    """an armorable object with a fixed binary export and a CRC chosen by the harness"""
    crcval = 0
    magic = 'MESSAGE'

    def __bytearray__(self):
        return bytearray(b'payload')

    def __bytes__(self):
        return b'payload'

    def parse(self, packet):
        pass

    @staticmethod
    def crc24(data):
        return _Blob.crcval


@ob('O10.2b', 'the armored text built by Armorable.__str__ hands base64 exactly the binary export, then exactly three big-endian CRC octets '
              '(leading zero octets kept), for every 24-bit CRC value', 'crc in [0, 2^24) symbolic (crc24 replaced by a symbolic value; base64 replaced by a recorder)',
    cond_timeout={'q': 120, 't': 300})
def crc_line_callsite(crc: int) -> bool:
    """
    pre: 0 <= crc < 2**24
    post: _
    """
    saved = _T.base64
    _T.base64 = _B64Rec
    _B64Rec.calls = []
    _Blob.crcval = crc
    try:
        text = str(_Blob())
    finally:
        _T.base64 = saved
    calls = _B64Rec.calls
    if len(calls) != 2 or calls[0] != b'payload':
        return False
    c = calls[1]
    return len(c) == 3 and c[0] * 65536 + c[1] * 256 + c[2] == crc and '\n=QUJD\n-----END PGP MESSAGE-----' in text


# ------------------------------------------------------------------------------------ O10.3 wrap arithmetic
def wrap_constants():
    """read the slice width and the range step of the wrap expression from Armorable.__str__'s current source"""
    src = textwrap.dedent(inspect.getsource(Armorable.__str__))
    tree = ast.parse(src)
    found = []
    for node in ast.walk(tree):
        if isinstance(node, ast.GeneratorExp) and len(node.generators) == 1:
            g = node.generators[0]
            if (isinstance(node.elt, ast.Subscript) and isinstance(node.elt.slice, ast.Slice) and isinstance(g.iter, ast.Call)
                    and getattr(g.iter.func, 'id', '') == 'range' and len(g.iter.args) == 3 and isinstance(g.target, ast.Name)):
                found.append((node.elt.slice, g.iter.args, g.target.id))
    if len(found) != 1:
        raise astsmt.Untranslatable('__str__: wrap expression not found')
    return found[0]


def replay_wrap(n):
    """native: wrap a payload of n characters with the expression found in the source"""
    sl, rargs, var = wrap_constants()
    payload = 'A' * n
    def ev(node, env):
        e = ast.Expression(node)
        ast.fix_missing_locations(e)
        return eval(compile(e, '<wrap>', 'eval'), dict(env, len=len, range=range))
    lines = [ev(ast.Subscript(ast.Name('payload', ast.Load()), sl, ast.Load()), {'payload': payload, var: i})
             for i in ev(ast.Call(ast.Name('range', ast.Load()), list(rargs), []), {'payload': payload})]
    return ''.join(lines) == payload and all(1 <= len(l) <= 76 for l in lines) and all(len(l) == len(lines[0]) for l in lines[:-1]) \
        and (not lines or len(lines[-1]) <= len(lines[0]))


@ob('O10.3', 'line wrapping for every payload length: lines tile the payload without gap or overlap, every line has 1..76 characters, '
             'all lines but the last have the same width', 'payload length n unbounded (n >= 0); slice bounds and range step translated from the '
             'wrap expression in Armorable.__str__', engine='A')
def o10_3(tier):
    sl, rargs, var = wrap_constants()

    def build(tr):
        n, k = z3.Int('n'), z3.Int('k')
        fr = astsmt.Frame({'payload': None, var: None}, {})
        # range(start, stop, step) with stop == len(payload) == n
        def ev(node, env):
            f = astsmt.Frame(env, {'len': len, 'range': range})
            return tr.eval(node, f, z3.BoolVal(True))

        class LenRw(ast.NodeTransformer):
            def visit_Call(self, node):
                if getattr(node.func, 'id', '') == 'len':
                    return ast.Name('n__', ast.Load())
                return self.generic_visit(node)
        start, stop, step = [ev(LenRw().visit(a), {'n__': n}) for a in rargs]
        start, stop, step = [astsmt.to_term(tr.ctx, v) for v in (start, stop, step)]
        i = start + k * step
        lo = astsmt.to_term(tr.ctx, ev(sl.lower, {var: i})) if sl.lower is not None else z3.IntVal(0)
        hi = astsmt.to_term(tr.ctx, ev(sl.upper, {var: i}))
        inext = start + (k + 1) * step
        lo_next = astsmt.to_term(tr.ctx, ev(sl.lower, {var: inext})) if sl.lower is not None else z3.IntVal(0)
        clamp = lambda x: z3.If(x > n, n, z3.If(x < 0, 0, x))           # python slice clamping for non-negative bounds
        length = clamp(hi) - clamp(lo)
        pre = [n >= 0, k >= 0, i < stop, step > 0]                          # line k exists
        last = inext >= stop
        claim = z3.And(stop == n, start == 0, lo == i, length >= 1, length <= 76,
                       z3.Implies(z3.Not(last), z3.And(clamp(hi) == lo_next, length == step)),   # tiles exactly, same width
                       z3.Implies(last, clamp(hi) == n))                                         # last line ends the payload
        tr.ctx.functions.add('pgpy.types.Armorable.__str__[wrap expression]')
        return pre, claim, {'n': n, 'k': k}
    res = astsmt.check_claim(build, lambda v: 'replay_wrap(%d)' % v['n'], cross=(tier == 'thorough'), timeout_s=120)
    res['validated'] = sum(1 for n in (0, 1, 63, 64, 65, 128, 4096) if replay_wrap(n))
    return res


# ------------------------------------------------------------------------------------ O10.4 labels
LABELS = ['PUBLIC KEY BLOCK', 'PRIVATE KEY BLOCK', 'MESSAGE', 'SIGNATURE', 'MESSAGE, PART 1', 'ARMORED FILE', '']
_SIG = bytes(PGPSignature.from_blob(open('/repo/tests/testdata/blocks/rsasignature.asc').read()))
_KEYS = {}


def _fixture_bodies():
    if not _KEYS:
        k, _ = PGPKey.from_file('/repo/tests/testdata/keys/rsa.1.pub.asc')
        s, _ = PGPKey.from_file('/repo/tests/testdata/keys/rsa.1.sec.asc')
        m = PGPMessage.new(b'x', compression=0)
        _KEYS.update(pub=bytes(k), sec=bytes(s), msg=bytes(m), sig=_SIG, pubobj=k, secobj=s, msgobj=m)
    return _KEYS


_fixture_bodies()


class _Unarmor:
    magic = None
    body = b''
    cleartext = None


def _stub_unarmor(text):
    return {'magic': _Unarmor.magic, 'headers': None, 'body': bytearray(_Unarmor.body), 'crc': None, 'hashes': None,
            'cleartext': _Unarmor.cleartext}


_REAL_UNARMOR = Armorable.__dict__['ascii_unarmor']
Armorable.ascii_unarmor = staticmethod(_stub_unarmor)        # after the fixtures above were loaded with the real one


@ob('O10.4', 'block labels: each object kind emits its own label, and parsing rejects every label of another kind',
    'object kind in {public key, private key, message, detached signature, cleartext-signed message} x presented label symbolic over the 7-element label set '
    'x cleartext part present/absent (armor text splitting stubbed)', cond_timeout={'q': 240, 't': 600})
def labels(kind: int, li: int, has_ct: bool) -> bool:
    """
    pre: 0 <= kind < 4
    pre: 0 <= li < 7
    post: _
    """
    fx = _fixture_bodies()
    own = ('PUBLIC KEY BLOCK', 'PRIVATE KEY BLOCK', 'MESSAGE', 'SIGNATURE')[kind]
    obj = (fx['pubobj'], fx['secobj'], fx['msgobj'], None)[kind]
    if obj is not None and obj.magic != own:
        return False
    if kind == 3 and PGPSignature().magic != own:
        return False
    label = LABELS[li]
    _Unarmor.magic = label
    _Unarmor.cleartext = 'text' if has_ct else None
    _Unarmor.body = (fx['pub'], fx['sec'], fx['msg'], fx['sig'])[kind]
    if kind == 2 and label == 'SIGNATURE':
        # a SIGNATURE block handed to the message loader: only a cleartext-signed message (cleartext part present, signature packets)
        # is a message; a bare detached signature block is of the wrong kind and must be rejected
        _Unarmor.body = fx['sig']
    cls = (PGPKey, PGPKey, PGPMessage, PGPSignature)[kind]
    o = cls()
    try:
        o.parse(bytearray(b'ignored'))
        accepted = True
    except Exception:
        accepted = False
    compatible = {0: ('PUBLIC KEY BLOCK', 'PRIVATE KEY BLOCK'), 1: ('PUBLIC KEY BLOCK', 'PRIVATE KEY BLOCK'),
                  2: ('MESSAGE', 'SIGNATURE'), 3: ('SIGNATURE',)}[kind]
    if kind == 2 and label == 'SIGNATURE':
        return accepted == has_ct
    if label == own and not accepted:
        return False
    if label not in compatible and accepted:
        return False
    return True


# ------------------------------------------------------------------------------------ O10.5 armored text round trip (concrete texts, enumerated)
def _real_unarmor():
    return _REAL_UNARMOR


LENS = (0, 1, 2, 3, 45, 46, 47, 48, 49, 95, 96, 97, 200)


HEADERS = ((), (('Comment', 'x'),), (('Comment', 'a: b: c'),), (('Version', 'v 1.0'), ('Comment', 'two words')))
WIDTHS = (64, 76, 75, 60, 33, 2, 1)


def _pick(sym, n):
    """concrete int equal to the symbolic index (if-chain: one path per value)"""
    for k in range(n):
        if sym == k:
            return k
    return 0


def _load(data):
    """(object or None, crc warning seen)"""
    import warnings as _w
    with _w.catch_warnings(record=True) as caught:
        _w.simplefilter('always')
        try:
            rx = PGPMessage.from_blob(data)
        except Exception:
            rx = None
    return rx, any('crc24' in str(w.message).lower() for w in caught)


def _as_kind(text, kind):
    return text if kind == 0 else (text.encode('latin-1') if kind == 1 else bytearray(text.encode('latin-1')))


@ob('O10.5', 'armored text round trip on concrete payloads (the armor regular expression and base64 run natively; the engine only enumerates the choices): loading the armored text - as str, bytes '
             'or bytearray, with LF or CRLF line ends, with or without surrounding text, with armor header lines - gives the binary export and the supplied headers back; '
             'a corrupted payload character is reported (error or CRC warning)',
    'literal-message payload length by symbolic index from 13 values around the 3-octet and 48-octet boundaries; input type x line ending x surrounding text x 4 header sets '
    '(none, one, a value containing ": ", two); corruption position by index from 4', cond_timeout={'q': 280, 't': 600}, partitions=[['li == %d' % k] for k in range(13)])
def armor_roundtrip(li: int, kind: int, crlf: bool, surround: bool, corrupt: int, hi: int = 0) -> bool:
    """
    pre: 0 <= li < 13
    pre: 0 <= kind < 3
    pre: 0 <= corrupt < 5
    pre: 0 <= hi < 4
    post: _
    """
    li, kind, corrupt, hi = _pick(li, 13), _pick(kind, 3), _pick(corrupt, 5), _pick(hi, 4)
    crlf, surround = (True if crlf else False), (True if surround else False)
    with native():
        return _armor_roundtrip(LENS[li], kind, crlf, surround, corrupt, HEADERS[hi])


def _armor_roundtrip(n, kind, crlf, surround, corrupt, headers):
    saved = Armorable.__dict__['ascii_unarmor']          # the staticmethod object itself
    Armorable.ascii_unarmor = _REAL_UNARMOR
    try:
        msg = PGPMessage.new(bytes((i * 7 + 1) % 256 for i in range(n)), compression=0, file=False, format='b')
        for k, v in headers:
            msg.ascii_headers[k] = v
        binary = msg.__bytes__()
        text = str(msg)
        lines = text.split('\n')
        if any(len(l) > 76 for l in lines) or lines[0] != '-----BEGIN PGP MESSAGE-----':
            return False
        if lines[1:1 + len(headers)] != ['%s: %s' % kv for kv in headers] or lines[1 + len(headers)] != '':
            return False
        if corrupt:
            # flip one base64 character of the payload (not padding): position from the start / middle / end of the first payload line
            body_at = text.index('\n\n') + 2
            first_len = text.index('\n', body_at) - body_at
            pos = body_at + (0, 0, first_len // 2, first_len - 1, 1)[corrupt] if first_len > 0 else body_at
            ch = text[pos]
            repl = 'A' if ch != 'A' else 'B'
            text = text[:pos] + repl + text[pos + 1:]
        if crlf:
            text = text.replace('\n', '\r\n')
        if surround:
            text = 'Some mail header: x\n\n' + text + '\ntrailing words\n'
        rx, crc_warned = _load(_as_kind(text, kind))
        if corrupt:
            return rx is None or crc_warned          # a payload that does not match its CRC is reported
        return rx is not None and rx.__bytes__() == binary and not crc_warned and list(rx.ascii_headers.items()) == list(headers)
    finally:
        Armorable.ascii_unarmor = saved


@ob('O10.6', 'armor written by another producer: the same payload wrapped at any legal line width, and the CRC line present / absent / wrong, on concrete payloads: '
             'a correct CRC loads to the binary export, a CRC line that does not match the payload (including the all-zero value =AAAA) is reported',
    'payload length by symbolic index from 13 values; line width from {64, 76, 75, 60, 33, 2, 1}; CRC line from {correct, =AAAA, correct with the last bit flipped} (armor without a CRC line is refused by PGPy: RFC 4880 makes the line optional, the property does not ask for it); LF / CRLF',
    cond_timeout={'q': 280, 't': 600}, partitions=[['wi == %d' % k] for k in range(7)])
def armor_foreign(li: int, wi: int, ci: int, crlf: bool) -> bool:
    """
    pre: 0 <= li < 13
    pre: 0 <= wi < 7
    pre: 0 <= ci < 3
    post: _
    """
    li, wi, ci = _pick(li, 13), _pick(wi, 7), _pick(ci, 3)
    crlf = True if crlf else False
    with native():
        return _armor_foreign(LENS[li], WIDTHS[wi], ci, crlf)


def _armor_foreign(n, width, ci, crlf):
    import base64 as _b64
    saved = Armorable.__dict__['ascii_unarmor']
    Armorable.ascii_unarmor = _REAL_UNARMOR
    try:
        msg = PGPMessage.new(bytes((i * 11 + 3) % 256 for i in range(n)), compression=0, file=False, format='b')
        binary = msg.__bytes__()
        b64 = _b64.b64encode(binary).decode()
        crc = ref_crc(binary)
        if ci == 1:
            crcv = 0
        elif ci == 2:
            crcv = crc ^ 1
        else:
            crcv = crc
        body = [b64[i:i + width] for i in range(0, len(b64), width)]
        # a pad character may not start a line in PGPy's reader (pre-existing restriction, left alone): keep pads on the last data line
        while len(body) > 1 and body[-1].startswith('='):
            body[-2] += body[-1]
            body.pop()
        lines = ['-----BEGIN PGP MESSAGE-----', ''] + body
        if True:
            lines.append('=' + _b64.b64encode(bytes([crcv // 65536, (crcv // 256) % 256, crcv % 256])).decode())
        lines += ['-----END PGP MESSAGE-----', '']
        text = ('\r\n' if crlf else '\n').join(lines)
        rx, crc_warned = _load(text)
        if ci == 0 or crcv == crc:
            return rx is not None and rx.__bytes__() == binary and not crc_warned
        return rx is None or crc_warned
    finally:
        Armorable.ascii_unarmor = saved


SANITY = ['armor_roundtrip(%d, %d, %s, %s, %d, %d)' % (l, k, c, s_, x, (l + k) % 4) for l in (0, 3, 7, 12) for k in range(3) for c in (True, False) for s_ in (True, False) for x in (0, 2)] + ['armor_foreign(%d, %d, %d, %s)' % (l, w, c, r) for l in (0, 4, 8, 12) for w in range(7) for c in range(3) for r in (True, False)] + ['replay_crc(0, 0)', 'replay_crc(0xB704CE, 0x31)', 'replay_crc(0xFFFFFF, 0xFF)', 
          'crc_line(0)', 'crc_line(255)', 'crc_line(2**24 - 1)', 'crc_line(65536)'] + ['replay_wrap(%d)' % n for n in (0, 1, 63, 64, 65, 4000)] + \
         ['labels(%d, %d, %s)' % (k, l, c) for k in range(4) for l in range(7) for c in (True, False)] + ['crc_line_callsite(0)', 'crc_line_callsite(255)', 'crc_line_callsite(0x010203)']
