"""C11 - cleartext signature framework: what is signed (DESIGN.md 3/C11).  Dash escaping and the cleartext armor framing go
through regular expressions on symbolic text and are NOT decided here (see OUTSIDE)."""
from vlib.h import ob, excl, native
from specs import rfc4880_sig as R
from harness.sigfix import *          # noqa
from pgpy import PGPMessage
import pgpy.constants as K
import hashlib as _hashlib

install_oracle()

FUNCTIONS_ENCODED = ['pgpy.pgp.PGPSignature.hashdata (CanonicalDocument branch)', 'pgpy.pgp.PGPKey.sign (cleartext message -> text signature)',
                     'pgpy.pgp.PGPMessage.__str__ (Hash: header)', 'pgpy.pgp.PGPMessage.new (cleartext)', 'pgpy.pgp.PGPMessage.__or__']
STUBS = ['EdDSAPriv.sign -> records the octets it is asked to sign', 'hashlib (left-16) -> recording stand-in']
OUTSIDE = ['dash-escaping / unescaping and the cleartext branch of the armor regular expression on SYMBOLIC text (O11.3 only enumerates concrete texts over a 7-letter alphabet): '
           'regular expressions on symbolic text are outside this tool (CrossHair\'s re model returned a non-reproducing counterexample for dash_unescape(dash_escape("--")), probe P14)',
           'verification by an independent implementation other than the reference canonicalisation below']
ASSUMPTIONS = ['RFC 4880 7.1: signed text has <CR><LF> line endings and no trailing SP/HT on any line']


def rfc71(text):
    """RFC 4880 7.1 canonical form of the signed text: CR LF line endings, trailing blanks of every line removed"""
    lines = []
    cur = bytearray()
    i = 0
    n = len(text)
    while i < n:
        b = text[i]
        if b == 10 or (b == 13 and i + 1 < n and text[i + 1] == 10):
            lines.append(bytes(cur))
            cur = bytearray()
            i += 1 if b == 10 else 2
            continue
        cur.append(b)
        i += 1
    lines.append(bytes(cur))
    out = []
    for ln in lines:
        k = len(ln)
        while k > 0 and ln[k - 1] in (32, 9):
            k -= 1
        out.append(ln[:k])
    return b'\r\n'.join(out)


def has_trailing_blank(text):
    n = len(text)
    for i in range(n):
        if text[i] in (32, 9):
            j = i + 1
            if j == n or text[j] == 10 or (text[j] == 13 and j + 1 < n and text[j + 1] == 10):
                return True
            # a run of blanks before the line end
            k = j
            while k < n and text[k] in (32, 9):
                k += 1
            if k == n or text[k] == 10 or (text[k] == 13 and k + 1 < n and text[k + 1] == 10):
                return True
    return False


AREA0 = R.area([R.sp_creation_time(T0_INT)])


@ob('O11.1', 'signed octets of a text signature follow RFC 4880 7.1 (line endings canonicalised to CR LF; nothing else changed)',
    'text of 0..4 (quick) / 0..5 (thorough) symbolic octets over all 256 values (LF, CRLF, lone CR, blanks, non-ASCII); lines ending in SP/HT are the region of known finding KF-C11-trailing-blanks',
    cond_timeout={'q': 280, 't': 1500}, partitions={'q': [['len(text) <= 3'], ['len(text) == 4']], 't': [['len(text) <= 3'], ['len(text) == 4']] + [['len(text) == 5', 'text[0] %% 8 == %d' % k] for k in range(8)]})
def signed_text(text: bytes) -> bool:
    """
    pre: len(text) <= 5
    pre: excl('KF-C11-trailing-blanks', has_trailing_blank(text))
    post: _
    """
    sig = mk_sig(SignatureType.CanonicalDocument)
    got = bytes(sig.hashdata(text))
    return got == rfc71(text) + R.trailer(1, 22, 8, AREA0)


@ob('O11.1-long', 'the canonical form does not depend on how many lines there are: k complete lines (LF or CRLF ended) followed by a short symbolic tail are hashed as RFC 4880 7.1 says',
    'k by symbolic index from 0..12 lines "x" ended by LF or (symbolic choice) CRLF; tail of 0..2 symbolic octets without a trailing blank', cond_timeout={'q': 280, 't': 600},
    partitions=[['k < 7'], ['k >= 7']])
def signed_text_many_lines(k: int, crlf: bool, tail: bytes) -> bool:
    """
    pre: 0 <= k <= 12
    pre: len(tail) <= 2
    pre: not has_trailing_blank(tail)
    post: _
    """
    kc = 0
    for j in range(13):
        if k == j:
            kc = j
    line = b'x\r\n' if crlf else b'x\n'
    text = b''.join([line] * kc) + bytes(tail)
    sig = mk_sig(SignatureType.CanonicalDocument)
    got = bytes(sig.hashdata(text))
    return got == rfc71(text) + R.trailer(1, 22, 8, AREA0)


@ob('O11.1k', 'witness of KF-C11-trailing-blanks: trailing SP/HT at the end of a line are hashed although RFC 4880 7.1 removes them',
    'text of 2..3 symbolic octets containing a blank before a line end', cond_timeout={'q': 120, 't': 120}, known='KF-C11-trailing-blanks', twin=False)
def signed_text_trailing_blank(text: bytes) -> bool:
    """
    pre: 2 <= len(text) <= 3
    pre: has_trailing_blank(text)
    post: _
    """
    sig = mk_sig(SignatureType.CanonicalDocument)
    return bytes(sig.hashdata(text)) == rfc71(text) + R.trailer(1, 22, 8, AREA0)


class _Rec:
    def __init__(self, name):
        self.digest_size = _hashlib.new(name).digest_size
        self.data = b''

    def update(self, b):
        self.data = self.data + bytes(b)

    def digest(self):
        return bytes(self.digest_size)


class _HL:
    new = staticmethod(lambda name, *a, **k: _Rec(name))


K.hashlib = _HL
HN = (HashAlgorithm.SHA1, HashAlgorithm.SHA256, HashAlgorithm.SHA512, HashAlgorithm.SHA224)


@ob('O11.2', 'signing a cleartext message makes a text (0x01) signature over exactly the message text, and the Hash: header lists exactly the '
             'hash algorithms of the signatures carried', 'text of 0..3 symbolic ASCII characters; 1..2 signers with hash algorithms chosen by symbolic index from 4',
    cond_timeout={'q': 280, 't': 900}, partitions=[['n == 1'], ['n == 2']])
def cleartext_sign(text: str, n: int, h0: int, h1: int) -> bool:
    """
    pre: len(text) <= 3
    pre: all(32 < ord(c) < 127 and c != '-' for c in text)
    pre: n in (1, 2)
    pre: 0 <= h0 < 4 and 0 <= h1 < 4
    pre: n == 2 or h1 == 0
    post: _
    """
    msg = PGPMessage.new(text, cleartext=True)
    names = []
    for i in range(n):
        hi = h0 if i == 0 else h1
        for k in range(4):
            if hi == k:
                Oracle.reset()
                sig = (KEY if i == 0 else KEY2).sign(msg, created=T0, hash=HN[k])
                if sig.type != SignatureType.CanonicalDocument:
                    return False
                want = text.encode('utf-8') + R.trailer(1, 22, int(HN[k]), R.area(
                    [R.sp_creation_time(T0_INT), R.sp_issuer_fpr(bytes.fromhex(str((KEY if i == 0 else KEY2).fingerprint)))]))
                if Oracle.log[-1] != want:
                    return False
                msg |= sig
                names.append(HN[k].name)
    out = str(msg)
    lines = out.split('\n')
    if lines[0] != '-----BEGIN PGP SIGNED MESSAGE-----':
        return False
    want_hdr = 'Hash: ' + ','.join(sorted(set(names)))
    return lines[1] == want_hdr and lines[2] == '' and lines[3] == text


ALPHA = ('a', '-', ' ', '\n', '\r', '\t', 'F')


@ob('O11.3', 'written-out-and-read-back round trip of a cleartext-signed message over a small adversarial alphabet: same text, signature still verifies, '
             'dash-escaping applied and removed exactly once (each path is a concrete text: the regular expressions are executed natively, the engine only enumerates the alphabet)',
    'text of 0..4 (quick) / 0..5 (thorough) characters, each chosen by symbolic index from {a, -, space, LF, CR, TAB, F}; texts with a blank before a line end are excluded '
    '(finding KF-C11-trailing-blanks); ASCII only (finding KF-C11-non-ascii-readback, witness O11.3k); one signer', cond_timeout={'q': 280, 't': 1200},
    partitions={'q': [['n <= 2']] + [['n == 3', 'c0 == %d' % k] for k in range(7)] + [['n == 4', 'c0 == %d' % k] for k in range(7)],
                't': [['n <= 2']] + [['n == 3', 'c0 == %d' % k] for k in range(7)] + [['n == 4', 'c0 == %d' % k] for k in range(7)] + [['n == 5', 'c0 == %d' % k, 'c1 == %d' % j] for k in range(7) for j in range(7)]})
def cleartext_roundtrip(n: int, c0: int, c1: int, c2: int, c3: int, c4: int = 0) -> bool:
    """
    pre: 0 <= n <= 5
    pre: 0 <= c0 < 7 and 0 <= c1 < 7 and 0 <= c2 < 7 and 0 <= c3 < 7 and 0 <= c4 < 7
    pre: n >= 1 or c0 == 0
    pre: n >= 2 or c1 == 0
    pre: n >= 3 or c2 == 0
    pre: n >= 4 or c3 == 0
    pre: n >= 5 or c4 == 0
    post: _
    """
    chars = []
    for j, sym in enumerate((c0, c1, c2, c3, c4)):
        if j < n:
            for k in range(7):
                if sym == k:
                    chars.append(ALPHA[k])
    with native():           # the text is concrete on this path: regular expressions, base64 and the armor code run as in production
        return _roundtrip_concrete(''.join(chars))


def _roundtrip_concrete(text):
    if has_trailing_blank(text.encode()):
        return True
    msg = PGPMessage.new(text, cleartext=True)
    from harness import sigfix
    sigfix.Oracle.multi = True
    sigfix.Oracle.pairs = []
    try:
        msg |= KEY.sign(msg, created=T0, hash=HashAlgorithm.SHA256)
        out = str(msg)
        # every line of the framed text that starts with a dash must have been escaped
        body = out.split('-----BEGIN PGP SIGNATURE-----')[0]
        for ln in body.split('\n')[3:]:
            if ln.startswith('-') and not ln.startswith('- '):
                return False
        rx = PGPMessage.from_blob(out)
        if rx.message != text and rx.message != text.replace('\r\n', '\n'):
            return False
        return bool(PUB.verify(rx))
    finally:
        sigfix.Oracle.multi = False


@ob('O11.3k', 'witness of KF-C11-non-ascii-readback: a cleartext-signed message whose text has a non-ASCII character is written out but cannot be read back '
              '(the written form is not recognised as armor because it is not pure ASCII)',
    'text = one character chosen by symbolic index from {e-acute, euro sign, U+1F600} followed by 0..1 letters of the O11.3 alphabet', cond_timeout={'q': 120, 't': 120}, known='KF-C11-non-ascii-readback', twin=False)
def cleartext_roundtrip_non_ascii(u: int, n: int, c0: int) -> bool:
    """
    pre: 0 <= u < 3 and 0 <= n <= 1 and 0 <= c0 < 7
    pre: n == 1 or c0 == 0
    post: _
    """
    chars = []
    for k in range(3):
        if u == k:
            chars.append(('\u00e9', '\u20ac', '\U0001F600')[k])
    if n == 1:
        for k in range(7):
            if c0 == k:
                chars.append(ALPHA[k])
    with native():
        try:
            return _roundtrip_concrete(''.join(chars))
        except Exception:
            return False


SANITY = ['signed_text_many_lines(12, False, b"a")', 'signed_text_many_lines(9, True, b"\\n")', 'signed_text_many_lines(0, False, b"")'] + ['cleartext_roundtrip(3, 0, 3, 0, 0)', 'cleartext_roundtrip(4, 1, 1, 3, 1)', 'cleartext_roundtrip(2, 6, 0, 0, 0)', 'cleartext_roundtrip(0, 0, 0, 0, 0)', 'signed_text(b"a\\nb")', 'signed_text(b"a\\r\\nb")', 'signed_text(b"\\n\\n")', 'signed_text(b"a\\rb")', 'signed_text(b" a\\tb")', 'signed_text(b"")',
          'cleartext_sign("abc", 1, 1, 0)', 'cleartext_sign("", 2, 0, 0)', 'cleartext_sign("x", 2, 3, 1)',
          'rfc71(b"a \\t\\nb ") == b"a\\r\\nb"', 'has_trailing_blank(b"a \\n") and has_trailing_blank(b" ") and not has_trailing_blank(b" a") and has_trailing_blank(b"a \\r\\n")']
