"""Shared stubs for the encryption harnesses (C03, C04, C13): ideal cipher, recording SHA-1, recording S2K, entropy feed."""
import warnings

import pgpy.packet.packets as P
import pgpy.packet.fields as F
import pgpy.constants as K
import pgpy.pgp as PGP
from pgpy.constants import SymmetricKeyAlgorithm, HashAlgorithm, CompressionAlgorithm
from pgpy.errors import PGPError, PGPDecryptionError

warnings.simplefilter('ignore')


# ---------------------------------------------------------------------------- RFC 4880 9.2 / RFC 5581: key and block sizes in octets, by cipher id (independent of PGPy's tables)
RFC_KEY_OCTETS = {1: 16, 2: 24, 3: 16, 4: 16, 7: 16, 8: 24, 9: 32, 10: 32, 11: 16, 12: 24, 13: 32}
RFC_BLOCK_OCTETS = {1: 8, 2: 8, 3: 8, 4: 8, 7: 16, 8: 16, 9: 16, 10: 16, 11: 16, 12: 16, 13: 16}


# ---------------------------------------------------------------------------- SHA-1 stand-in (packets.py: MDC)
def inj_digest(data, size=20):
    """collision-free on inputs of at most size-1 octets (the input itself, padded, plus its length) and among inputs of exactly size octets; beyond that a function of
    length and edge octets (only used where injectivity is not needed)"""
    n = len(data)
    if n <= size - 1:
        return bytes(data) + bytes(size - 1 - n) + bytes([n])
    if n == size:
        return bytes(data)                 # collision-free among inputs of exactly `size` octets
    head = [0xFF - (n % 200), n % 256]
    for i in range(9):
        head.append(data[i])
    for i in range(1, 10):
        head.append(data[n - i])
    return bytes(head)[:size]


class _Sha:
    def __init__(self, data=b''):
        self.data = bytes(data)

    def update(self, b):
        self.data = self.data + bytes(b)

    def digest(self):
        return inj_digest(self.data, 20)

    def hexdigest(self):
        return self.digest().hex()


class HashStub:
    """stands in for the hashlib module of packets.py / fields.py: the MDC and the secret-key trailer call new(name, data);
    fingerprints call new('sha1') and update() - those keep the real SHA-1 so that key ids stay what the fixtures were made with"""
    @staticmethod
    def new(name, data=None):
        if data is None:
            import hashlib
            return hashlib.new(name)
        return _Sha(data)


# ---------------------------------------------------------------------------- ideal cipher
class Cipher:
    """keyed-transparent model: ciphertext = key-tag || plaintext.  Decrypting under the same key gives the plaintext back;
    under any other key, or for a ciphertext that was not produced by encrypt, the model returns `garbage` - an arbitrary
    (symbolic) octet string chosen by the harness: an ideal cipher's output on a wrong key is unrelated to the plaintext."""
    log = []                 # (op, pt/ct, key, alg, iv)
    garbage = None           # bytes to return on a key mismatch (set by the harness); None -> mismatch raises
    adversarial = None       # when set, EVERY decrypt returns the next element of this list (accept-predicate obligations)

    @staticmethod
    def reset():
        Cipher.log = []
        Cipher.garbage = None
        Cipher.adversarial = None


def _encrypt(pt, key, alg, iv=None):
    Cipher.log.append(('enc', bytes(pt), bytes(key), alg, None if iv is None else bytes(iv)))
    return bytearray(bytes([len(key)]) + bytes(key) + bytes(pt))


def _decrypt(ct, key, alg, iv=None):
    Cipher.log.append(('dec', bytes(ct), bytes(key), alg, None if iv is None else bytes(iv)))
    if Cipher.adversarial is not None:
        return bytearray(Cipher.adversarial.pop(0))
    n = ct[0] if len(ct) else 0
    if len(ct) >= 1 + n and bytes(ct[1:1 + n]) == bytes(key):
        return bytearray(ct[1 + n:])
    if Cipher.garbage is None:
        raise PGPDecryptionError('model: key mismatch')
    return bytearray(Cipher.garbage)


# ---------------------------------------------------------------------------- S2K stand-in
REAL_DERIVE_KEY = F.String2Key.derive_key


class S2K:
    log = []


def _derive_key(self, passphrase):
    pw = passphrase if isinstance(passphrase, (bytes, bytearray)) else passphrase.encode('utf-8')
    n = self.encalg.key_size // 8
    S2K.log.append((bytes(pw), bytes(self.salt), int(self.specifier), int(self.halg), self._count))
    return (bytes([len(pw)]) + bytes(pw) + bytes(self.salt) + bytes(n))[:n]


# ---------------------------------------------------------------------------- entropy feed
class Feed:
    """os.urandom / gen_key / gen_iv replaced by a feed whose elements the harness supplies (symbolic): randomness as a variable"""
    values = []
    calls = []

    @staticmethod
    def reset(values):
        Feed.values = list(values)
        Feed.calls = []


def drawn_fresh(calls, wanted):
    """each wanted (size, value) is the value of its own draw of that size among `calls` (the draws of this operation only), no draw serving two roles;
    the ORDER of the draws is not prescribed (the property does not fix it), nor is drawing more than needed"""
    def rec(i, used):
        if i == len(wanted):
            return True
        size, val = wanted[i]
        for j in range(len(calls)):
            if j not in used and calls[j][0] == size and calls[j][1] == val:
                if rec(i + 1, used | {j}):
                    return True
        return False
    return rec(0, frozenset())


class _Os:
    def __init__(self, real):
        self._real = real

    def __getattr__(self, name):
        return getattr(self._real, name)

    def urandom(self, n):
        v = Feed.values.pop(0) if Feed.values else bytes([0xA0 + len(Feed.calls)]) * n
        v = (bytes(v) + bytes(n))[:n]
        Feed.calls.append((n, v))
        return v


def install(cipher=True, sha=True, s2k=True, feed=True):
    if cipher:
        P._encrypt, P._decrypt = _encrypt, _decrypt
        F._encrypt, F._decrypt = _encrypt, _decrypt
    if sha:
        P.hashlib = HashStub
    if s2k:
        F.String2Key.derive_key = _derive_key
    if feed:
        import os as _os
        P.os = _Os(_os)
        F.os = _Os(_os)
        K.os = _Os(_os)


# ---------------------------------------------------------------------------- hash used for the left-16 field inside PGPKey._sign
class _KRec:
    def __init__(self, name):
        import hashlib
        self.digest_size = hashlib.new(name).digest_size
        self.data = b''

    def update(self, b):
        self.data = self.data + bytes(b)

    def digest(self):
        return inj_digest(self.data, self.digest_size)


class KHashStub:
    new = staticmethod(lambda name, *a, **k: _KRec(name))


def install_signing_hash():
    """HashAlgorithm.hasher -> recorder, so that signing symbolic data does not push it into C code (hashlib)"""
    K.hashlib = KHashStub
