"""C03 - encryption round-trips and conforms to RFC 4880 / RFC 6637 layout (DESIGN.md 3/C03).  All with the stand-ins of
harness/encfix.py: the claim is about *framing* - what is handed to the primitives and what is written into the packets."""
from vlib.h import ob
from harness import encfix
from harness.encfix import Cipher, Feed, S2K, inj_digest, RFC_KEY_OCTETS, RFC_BLOCK_OCTETS
from harness.sigfix import *          # noqa (real Ed25519 keys, oracle)
from pgpy import PGPMessage, PGPKey
from pgpy.packet.packets import IntegrityProtectedSKEDataV1, PKESessionKeyV3, SKESessionKeyV4
from pgpy.errors import PGPError, PGPDecryptionError
import pgpy.packet.fields as F
import pgpy.constants as K

encfix.install()
encfix.install_signing_hash()
install_oracle()

FUNCTIONS_ENCODED = ['pgpy.packet.packets.SKEData.decrypt', 'pgpy.pgp.PGPMessage.__or__ (session-key packets)', 'pgpy.packet.packets.PKESessionKeyV3.encrypt_sk / decrypt_sk', 'pgpy.packet.packets.SKESessionKeyV4.encrypt_sk / decrypt_sk / __bytearray__ / parse',
                     'pgpy.packet.packets.IntegrityProtectedSKEDataV1.encrypt / decrypt', 'pgpy.pgp.PGPMessage.encrypt / decrypt', 'pgpy.pgp.PGPKey.encrypt / decrypt',
                     'pgpy.packet.fields.ECKDF.derive_key', 'pgpy.packet.packets.MDC', 'pgpy.pgp.PGPMessage.parse']
STUBS = ['symmetric cipher -> keyed-transparent ideal model; SHA-1 (MDC) -> collision-free stand-in; String2Key.derive_key -> recording stand-in; os.urandom -> entropy feed',
         'RSA / ECDH public-key operation -> records the block m it is given and hands the same block back on decryption', 'ConcatKDFHash -> records otherinfo (RFC 6637 parameter block)']
OUTSIDE = ['the real ciphers, CFB mode, RSA, ECDH, AES key wrap, PKCS#5 padding of the ECDH block (C code)', 'every compressor (C code): messages are built uncompressed',
           'interoperability beyond "same octet layout as RFC 4880 5.1 / 5.3 / 5.13 and RFC 6637 8"', 'large bodies']
ASSUMPTIONS = ['RFC 4880 5.1 (m = cipher id || key || 16-bit sum), 5.3, 5.13; RFC 6637 section 8 parameter block']

CIPHERS = (K.SymmetricKeyAlgorithm.TripleDES, K.SymmetricKeyAlgorithm.CAST5, K.SymmetricKeyAlgorithm.Blowfish, K.SymmetricKeyAlgorithm.AES128,
           K.SymmetricKeyAlgorithm.AES192, K.SymmetricKeyAlgorithm.AES256, K.SymmetricKeyAlgorithm.Camellia128, K.SymmetricKeyAlgorithm.Camellia192,
           K.SymmetricKeyAlgorithm.Camellia256)


class PK:
    """recording stand-in for the public-key operation"""
    blocks = []
    point = b''


def _ct_encrypt(cls, encfn, *args):
    PK.blocks.append(bytes(args[-1] if cls is F.ECDHCipherText else args[0]))
    ct = cls()
    if cls is F.RSACipherText:
        from pgpy.packet.types import MPI
        ct.me_mod_n = MPI(0x1234)
    else:
        ct.p = F.ECPoint.from_values(255, F.ECPointFormat.Native, bytes(range(32)))
        ct.c = bytearray(b'\x07' * 8)
        PK.point = bytes(ct.p.__bytearray__() if hasattr(ct.p, '__bytearray__') else ct.p.to_mpibytes())
    return ct


def _ct_decrypt(self, decfn, *args):
    # the stand-in only "decrypts" the ciphertext object it made: whatever the library did to the packet in between (copying, export,
    # import) must have kept every field of it
    if isinstance(self, F.RSACipherText):
        intact = int(self.me_mod_n) == 0x1234
    else:
        intact = bytes(self.c) == b'\x07' * 8 and bytes(self.p.__bytearray__() if hasattr(self.p, '__bytearray__') else self.p.to_mpibytes()) == PK.point
    if not intact:
        raise PGPDecryptionError('public-key ciphertext fields were altered on the way')
    return PK.blocks[-1]


F.RSACipherText.encrypt = classmethod(_ct_encrypt)
F.RSACipherText.decrypt = _ct_decrypt
F.ECDHCipherText.encrypt = classmethod(_ct_encrypt)
F.ECDHCipherText.decrypt = _ct_decrypt


class _FakeRSAKey:
    class keymaterial:
        @staticmethod
        def __pubkey__():
            class _P:
                encrypt = staticmethod(lambda m, pad: m)
            return _P()

        @staticmethod
        def __privkey__():
            class _S:
                key_size = 64
                decrypt = staticmethod(lambda ct, pad: ct)
            return _S()


def pick_cipher(ci):
    for k in range(len(CIPHERS)):
        if ci == k:
            return CIPHERS[k]
    return CIPHERS[0]


@ob('O3.1', 'public-key session key: the block given to the public-key operation is  cipher id || session key || (sum of key octets mod 65536), and decrypt_sk inverts it',
    'cipher over the 9 supported ones; session key of the cipher\'s size with 3 symbolic octets (first, middle, last)', cond_timeout={'q': 280, 't': 900},
    partitions=[['ci == %d' % i] for i in range(9)])
def pkesk_layout(ci: int, k0: int, k1: int, k2: int) -> bool:
    """
    pre: 0 <= ci < 9
    pre: 0 <= k0 < 256 and 0 <= k1 < 256 and 0 <= k2 < 256
    post: _
    """
    alg = pick_cipher(ci)
    n = RFC_KEY_OCTETS[int(alg)]               # RFC 4880 9.2 / RFC 5581, not PGPy's own table
    key = bytes([k0]) + bytes(range(1, n // 2)) + bytes([k1]) + bytes(range(n // 2 + 1, n - 1)) + bytes([k2])
    pk = PKESessionKeyV3()
    pk.pkalg = K.PubKeyAlgorithm.RSAEncryptOrSign
    PK.blocks = []
    pk.encrypt_sk(_FakeRSAKey, alg, key)
    s = sum(key) % 65536
    want = bytes([int(alg)]) + key + bytes([s // 256, s % 256])
    if PK.blocks != [want] or len(key) != n:
        return False
    got_alg, got_key = pk.decrypt_sk(_FakeRSAKey)
    return got_alg == alg and bytes(got_key) == key


@ob('O3.2', 'passphrase session key: fresh 8-octet salt from the entropy source, key-encryption key derived from passphrase and that salt, the cipher receives  cipher id || session key '
            'with no IV, the packet body is  04 cipher 03 hash salt count ciphertext, and decrypt_sk inverts it (also after export and re-import)',
    'cipher over the 9 supported ones; session key with 2 symbolic octets; symbolic salt; passphrase of 0..1 symbolic characters', cond_timeout={'q': 280, 't': 900},
    partitions=[['ci == %d' % i] for i in range(9)])
def skesk_layout(ci: int, k0: int, k1: int, salt: bytes, pw: str) -> bool:
    """
    pre: 0 <= ci < 9
    pre: 0 <= k0 < 256 and 0 <= k1 < 256
    pre: len(salt) == 8
    pre: len(pw) <= 1
    post: _
    """
    alg = pick_cipher(ci)
    n = RFC_KEY_OCTETS[int(alg)]
    sk = bytes([k0]) + bytes(range(1, n - 1)) + bytes([k1])
    p = SKESessionKeyV4()
    p.s2k.usage = 255
    p.s2k.specifier = 3
    p.s2k.halg = K.HashAlgorithm.SHA256
    p.s2k.encalg = alg
    p.s2k.count = 96
    Cipher.reset()
    S2K.log = []
    Feed.reset([salt])
    p.encrypt_sk(pw, sk)
    enc = [e for e in Cipher.log if e[0] == 'enc']
    if len(enc) != 1 or enc[0][1] != bytes([int(alg)]) + sk or enc[0][4] is not None or enc[0][3] != alg:
        return False
    if bytes(p.s2k.salt) != bytes(salt) or len(S2K.log) != 1 or S2K.log[0][0] != pw.encode('utf-8') or S2K.log[0][1] != bytes(salt):
        return False
    wire = bytes(p.__bytearray__())
    body = wire[len(p.header):]
    want = bytes([4, int(alg), 3, 8]) + bytes(salt) + bytes([96]) + bytes(p.ct)
    if body != want:
        return False
    from pgpy.packet import Packet
    q = Packet(bytearray(wire))
    got_alg, got_sk = q.decrypt_sk(pw)
    return got_alg == alg and bytes(got_sk) == sk


@ob('O3.3', 'integrity-protected data: the cipher receives  R || R[-2:] || data || D3 14 || SHA-1(R || R[-2:] || data || D3 14)  where R is block-size octets from the entropy source; '
            'decrypt returns  data || MDC packet', 'block size 8 (CAST5) and 16 (AES-128); R fully symbolic; data of 0..3 symbolic octets; session key with 1 symbolic octet',
    cond_timeout={'q': 280, 't': 900}, flags=('lazyhex',), partitions=[['bs == 8'], ['bs == 16']])
def seipd_layout(bs: int, r: bytes, data: bytes, k0: int) -> bool:
    """
    pre: bs in (8, 16)
    pre: len(r) == bs
    pre: len(data) <= 3
    pre: 0 <= k0 < 256
    post: _
    """
    alg = K.SymmetricKeyAlgorithm.CAST5 if bs == 8 else K.SymmetricKeyAlgorithm.AES128
    key = bytes([k0]) * 16
    Cipher.reset()
    Feed.reset([r])
    p = IntegrityProtectedSKEDataV1()
    p.encrypt(key, alg, bytes(data))
    enc = [e for e in Cipher.log if e[0] == 'enc']
    pre = bytes(r) + bytes(r[bs - 2:]) + bytes(data) + b'\xd3\x14'
    want = pre + inj_digest(pre)
    if len(enc) != 1 or enc[0][1] != want or enc[0][2] != key or enc[0][3] != alg or enc[0][4] is not None:
        return False
    out = p.decrypt(key, alg)
    return bytes(out) == bytes(data) + b'\xd3\x14' + inj_digest(pre)


class _KDFRec:
    last = None

    def __init__(self, algorithm=None, length=None, otherinfo=None, backend=None):
        _KDFRec.last = (algorithm.name, length, bytes(otherinfo))

    def derive(self, s):
        return b'Z' * _KDFRec.last[1]


F.ConcatKDFHash = _KDFRec
OIDS = {0: bytes.fromhex('0a2b060104019755010501'), 1: bytes.fromhex('082a8648ce3d030107'), 2: bytes.fromhex('052b81040022'), 3: bytes.fromhex('052b81040023')}
CURVES = (K.EllipticCurveOID.Curve25519, K.EllipticCurveOID.NIST_P256, K.EllipticCurveOID.NIST_P384, K.EllipticCurveOID.NIST_P521)


@ob('O3.4', 'ECDH key derivation parameters are the RFC 6637 section 8 block: OID length, OID, 12, 03 01, KDF hash, KEK cipher, "Anonymous Sender    ", recipient fingerprint; '
            'output length = KEK key size', 'curve over {Curve25519, P-256, P-384, P-521}; KDF hash over {SHA256, SHA384, SHA512}; KEK over {AES128, AES192, AES256}; first and last fingerprint octet from {00,0A,9F,FF}',
    cond_timeout={'q': 280, 't': 600}, flags=('lazyhex',))
def ecdh_params(cv: int, hi: int, ki: int, f0: int, f1: int) -> bool:
    """
    pre: 0 <= cv < 4 and 0 <= hi < 3 and 0 <= ki < 3
    pre: 0 <= f0 < 4 and 0 <= f1 < 4
    post: _
    """
    halg = (K.HashAlgorithm.SHA256, K.HashAlgorithm.SHA384, K.HashAlgorithm.SHA512)
    kalg = (K.SymmetricKeyAlgorithm.AES128, K.SymmetricKeyAlgorithm.AES192, K.SymmetricKeyAlgorithm.AES256)
    kdf = F.ECKDF()
    h, k, curve, oid = halg[0], kalg[0], CURVES[0], OIDS[0]
    for i in range(3):
        if hi == i:
            h = halg[i]
        if ki == i:
            k = kalg[i]
    for i in range(4):
        if cv == i:
            curve, oid = CURVES[i], OIDS[i]
    kdf.halg, kdf.encalg = h, k
    fv = (0x00, 0x0A, 0x9F, 0xFF)
    q = [0, 0]
    for j, sym in enumerate((f0, f1)):
        for i in range(4):
            if sym == i:
                q[j] = fv[i]
    f0, f1 = q
    fpr = bytes([f0]) + bytes(range(1, 19)) + bytes([f1])
    hexfpr = ''.join('%02X' % b for b in (bytes([0]) + bytes(range(1, 19)) + bytes([0])))
    # the fingerprint string is built from concrete hex with the two symbolic octets spliced in as hex digits
    hexd = '0123456789ABCDEF'
    hexfpr = hexd[f0 // 16] + hexd[f0 % 16] + hexfpr[2:38] + hexd[f1 // 16] + hexd[f1 % 16]
    out = kdf.derive_key(b'shared', curve, K.PubKeyAlgorithm.ECDH, hexfpr)
    name, length, info = _KDFRec.last
    want = oid + bytes([18, 3, 1, int(h), int(k)]) + b'Anonymous Sender    ' + fpr
    return info == want and length == k.key_size // 8 and name == h.name.lower() and len(out) == length


# ------------------------------------------------------------------------------------ composition
ENCKEY = PGPKey.new(K.PubKeyAlgorithm.EdDSA, K.EllipticCurveOID.Ed25519, created=T0)
ENCKEY.add_uid(PGPUID.new('enc'), usage={KeyFlags.Sign, KeyFlags.Certify}, hashes=[HashAlgorithm.SHA256],
               ciphers=[K.SymmetricKeyAlgorithm.AES256, K.SymmetricKeyAlgorithm.CAST5], compression=[K.CompressionAlgorithm.Uncompressed], created=T0)
_sub = PGPKey.new(K.PubKeyAlgorithm.ECDH, K.EllipticCurveOID.Curve25519, created=T0)
ENCKEY.add_subkey(_sub, usage={KeyFlags.EncryptCommunications, KeyFlags.EncryptStorage}, created=T0)
ENCPUB = ENCKEY.pubkey


@ob('O3.5', 'composition: decrypting what was encrypted - with the passphrase, or with the recipient private key - gives a message with the same literal body, format, file name '
            'and signatures', 'recipient kind in {passphrase, public key (ECDH subkey)}; cipher over {CAST5, AES128, AES256}; body of 0..2 symbolic octets; file name from {"", "_CONSOLE", "f.txt"}; 0..1 signature; '
            'passphrase of 0..1 symbolic characters', cond_timeout={'q': 280, 't': 900}, flags=('lazyhex',), partitions=[['kind == %d' % k, 'ci == %d' % c, 'signed == %s' % sg, 'len(body) <= 2'] for k in range(2) for c in range(3) for sg in (True, False)])
def composition(kind: int, ci: int, body: bytes, fsel: int, signed: bool, pw: str) -> bool:
    """
    pre: kind in (0, 1)
    pre: 0 <= ci < 3
    pre: len(body) <= 3
    pre: 0 <= fsel < 3
    pre: len(pw) <= 1
    pre: kind == 0 or pw == ''
    post: _
    """
    alg = (K.SymmetricKeyAlgorithm.CAST5, K.SymmetricKeyAlgorithm.AES128, K.SymmetricKeyAlgorithm.AES256)[ci]
    msg = PGPMessage.new(bytes(body), compression=K.CompressionAlgorithm.Uncompressed, file=False, format='b')
    msg._message.filename = ('', '_CONSOLE', 'f.txt')[fsel]
    msg._message.update_hlen()
    if signed:
        Oracle.reset()
        msg |= KEY.sign(msg, created=T0, hash=HashAlgorithm.SHA256)
    Cipher.reset()
    Feed.reset([])
    PK.blocks = []
    if kind == 0:
        enc = msg.encrypt(pw, cipher=alg)
        rx = PGPMessage.from_blob(enc.__bytes__())
        dec = rx.decrypt(pw)
    else:
        enc = ENCPUB.encrypt(msg, cipher=alg)
        rx = PGPMessage.from_blob(enc.__bytes__())
        if not rx.is_encrypted or list(rx.encrypters) != [list(ENCKEY.subkeys)[0]]:
            return False
        dec = ENCKEY.decrypt(rx)
    ok = bytes(dec.message) == bytes(body) and dec._message.format == 'b' and dec._message.filename == msg._message.filename
    ok = ok and len(dec._signatures) == (1 if signed else 0) and not dec.is_encrypted
    if signed:
        ok = ok and bytes(dec._signatures[0].__bytearray__()) == bytes(msg._signatures[0].__bytearray__())
    return ok


@ob('O3.6', 'several recipients mixing a passphrase and a public key, in either order of encryption: each of them alone decrypts to the original body',
    'order in {passphrase then key, key then passphrase}; decrypting party in {passphrase, private key}; body of 0..2 symbolic octets', cond_timeout={'q': 280, 't': 900}, flags=('lazyhex',))
def mixed_recipients(key_first: bool, by_key: bool, body: bytes) -> bool:
    """
    pre: len(body) <= 2
    post: _
    """
    msg = PGPMessage.new(bytes(body), compression=K.CompressionAlgorithm.Uncompressed, file=False, format='b')
    Cipher.reset()
    Feed.reset([])
    PK.blocks = []
    sk = b'K' * 16
    if key_first:
        enc = ENCPUB.encrypt(msg, cipher=K.SymmetricKeyAlgorithm.AES128, sessionkey=sk)
        enc = enc.encrypt('pw', sessionkey=sk, cipher=K.SymmetricKeyAlgorithm.AES128)
    else:
        enc = msg.encrypt('pw', sessionkey=sk, cipher=K.SymmetricKeyAlgorithm.AES128)
        enc = ENCPUB.encrypt(enc, cipher=K.SymmetricKeyAlgorithm.AES128, sessionkey=sk)
    rx = PGPMessage.from_blob(enc.__bytes__())
    dec = ENCKEY.decrypt(rx) if by_key else rx.decrypt('pw')
    return bytes(dec.message) == bytes(body)


@ob('O3.7', 'a message from another producer that uses the older Symmetrically Encrypted Data packet (tag 9, no modification detection code) behind a public-key or a passphrase '
            'session-key packet decrypts to exactly its literal content (nothing is cut off, nothing added)',
    'recipient kind in {public key, passphrase}; cipher in {CAST5, AES128}; literal body = 0..2 symbolic octets followed by 0 / 30 concrete octets; cipher stand-in returns prefix and plaintext',
    cond_timeout={'q': 280, 't': 900}, flags=('lazyhex',), partitions=[['by_key'], ['not by_key']])
def foreign_tag9(by_key: bool, aes: bool, long_body: bool, body: bytes) -> bool:
    """
    pre: len(body) <= 2
    post: _
    """
    from harness.c08 import split_one
    alg = K.SymmetricKeyAlgorithm.AES128 if aes else K.SymmetricKeyAlgorithm.CAST5
    bs = 16 if aes else 8
    content = bytes(body) + (b'.' * 30 if long_body else b'')
    lit = PGPMessage.new(content, compression=K.CompressionAlgorithm.Uncompressed, file=False, format='b')
    inner = lit.__bytes__()
    Cipher.reset()
    Feed.reset([])
    PK.blocks = []
    sk = b'K' * 16
    enc = ENCPUB.encrypt(lit, cipher=alg, sessionkey=sk) if by_key else lit.encrypt('pw', sessionkey=sk, cipher=alg)
    wire = enc.__bytes__()
    tag, hl, bl = split_one(wire)
    esk = wire[:hl + bl]                                      # the session-key packet as PGPy wrote it
    ct = bytes(range(1, bs + 3)) + bytes(len(inner))          # what the ciphertext octets are does not matter to the stand-in
    foreign = esk + bytes([0xC9, len(ct)]) + ct
    rx = PGPMessage.from_blob(foreign)
    prefix = bytes(range(bs)) + bytes([bs - 2, bs - 1])
    Cipher.adversarial = ([] if by_key else [bytes([int(alg)]) + sk]) + [prefix, inner]
    try:
        dec = ENCKEY.decrypt(rx) if by_key else rx.decrypt('pw')
    except (PGPError, PGPDecryptionError):
        return False
    finally:
        Cipher.adversarial = None
    return bytes(dec.message) == content and dec.__bytes__() == inner


SANITY = ['foreign_tag9(True, True, True, b"a")', 'foreign_tag9(False, False, False, b"")', 'foreign_tag9(True, False, False, b"xy")', 'foreign_tag9(False, True, True, b"z")'] + ['pkesk_layout(0, 1, 2, 3)', 'pkesk_layout(5, 255, 255, 255)', 'pkesk_layout(8, 0, 0, 0)', 'skesk_layout(1, 1, 2, b"saltsalt", "p")', 'skesk_layout(5, 0, 255, bytes(8), "")',
          'seipd_layout(8, bytes(range(8)), b"abc", 7)', 'seipd_layout(16, bytes(range(16)), b"", 0)', 'ecdh_params(0, 0, 0, 1, 2)', 'ecdh_params(3, 2, 2, 0, 3)', 'ecdh_params(1, 1, 1, 2, 1)',
          'mixed_recipients(True, True, b"a")', 'mixed_recipients(True, False, b"a")', 'mixed_recipients(False, True, b"ab")', 'mixed_recipients(False, False, b"")', 'composition(0, 0, b"hi", 0, False, "p")', 'composition(0, 2, b"", 1, True, "")', 'composition(1, 1, b"abc", 2, True, "")', 'composition(1, 0, b"x", 0, False, "")']
