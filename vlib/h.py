"""Helpers for harness modules: obligation registration and known-finding partitioning."""
import json
import os

VERIF = os.path.dirname(os.path.dirname(os.path.abspath(__file__)))
_REG = {}


def _both(v, default):
    if v is None:
        v = default
    if isinstance(v, dict):
        return {'quick': v.get('quick', v.get('q')), 'thorough': v.get('thorough', v.get('t', v.get('quick', v.get('q'))))}
    return {'quick': v, 'thorough': v}


def ob(id, desc, bounds, tiers=('quick', 'thorough'), cond_timeout=None, path_timeout=60, twin=True, partitions=None,
       flags=(), known=None, engine='B', hard_timeout=None, expect='hold'):
    """register a harness function as an obligation.

    cond_timeout: CrossHair per-condition budget in seconds (number or {'q':..,'t':..})
    partitions:   list of lists of extra `pre:` expressions; each list is analysed in its own process and
                  together they must cover the precondition (stated in `bounds`); may be {'q': [...], 't': [...]}
    known:        id in known_findings.json: a reproduced failure of this obligation is that finding
    """
    def deco(fn):
        if isinstance(partitions, dict):
            parts = {'quick': partitions.get('q') or partitions.get('quick'),
                     'thorough': partitions.get('t') or partitions.get('thorough') or partitions.get('q') or partitions.get('quick')}
        else:
            parts = {'quick': partitions, 'thorough': partitions}
        _REG.setdefault(fn.__module__, []).append({
            'id': id, 'name': fn.__name__, 'module': fn.__module__, 'desc': desc, 'bounds': bounds,
            'tiers': tuple(tiers), 'cond_timeout': _both(cond_timeout, {'q': 60, 't': 600}),
            'path_timeout': path_timeout, 'twin': twin and engine == 'B' and expect == 'hold', 'partitions': parts, 'flags': tuple(flags),
            'known': known, 'engine': engine, 'expect': expect, 'hard_timeout': _both(hard_timeout, {'q': 120, 't': 900})})
        return fn
    return deco


def collect(mod):
    return list(_REG.get(mod.__name__, []))


def _load_known():
    p = os.path.join(VERIF, 'known_findings.json')
    if os.path.exists(p):
        with open(p) as f:
            return {e['id']: (e.get('status') == 'open') for e in json.load(f).get('findings', [])}
    return {}


_KNOWN = _load_known()          # read once at import (never under the tracer)


def kf_open(kid):
    """True when finding `kid` is listed as open in the committed known_findings.json"""
    return _KNOWN.get(kid, False)


def excl(kid, in_region):
    """precondition helper: exclude the region of an OPEN known finding (it is covered by that finding's
    witness obligation); a fixed or unlisted finding excludes nothing."""
    if kf_open(kid):
        return not in_region
    return True


class native:
    """context manager: run the enclosed block without CrossHair's tracer (no-op outside an analysis).  For blocks whose inputs the
    harness has already made concrete per path (if-chains over symbolic indices): C code and regular expressions then run as they do
    in production instead of through the tool's models.  Nothing symbolic may be used inside."""
    def __enter__(self):
        self._cm = None
        try:
            from crosshair.tracers import NoTracing, is_tracing
            if is_tracing():
                self._cm = NoTracing()
                self._cm.__enter__()
        except ImportError:
            pass
        return self

    def __exit__(self, *a):
        if self._cm is not None:
            return self._cm.__exit__(*a)
        return False
