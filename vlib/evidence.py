"""Evidence writer (EVIDENCE.schema.json, level model_checking = bounded symbolic)."""
import hashlib
import inspect
import json
import os

VERIF = os.path.dirname(os.path.dirname(os.path.abspath(__file__)))


def write_evidence(prop, tier, seed, hmod, jobs, rows, main_rows, decided, inconcl, violations, known_lines,
                   shim_selftests, sanity, n_replays, wall):
    paths = sum(r.get('paths', 0) or 0 for r in rows)
    queries = sum(r.get('queries', 0) or 0 for r in rows)
    solver_s = sum(r.get('solver_s', 0.0) or 0.0 for r in rows)
    shims = sorted({s for j in jobs if j.res for s in j.res.get('shims', [])})
    functions = sorted(set(getattr(hmod, 'FUNCTIONS_ENCODED', [])) |
                       {f for r in rows for f in (r.get('functions') or [])})
    validated = int(sanity or 0) + n_replays + sum(int(r.get('validated', 0) or 0) for r in rows) + \
        sum(int(v) for v in shim_selftests.values() if not isinstance(v, str))
    samples = []
    for r in main_rows:
        s = {k: r[k] for k in ('obligation', 'status', 'bounds', 'engine', 'paths', 'queries', 'wall_s',
                               'counterexample', 'why', 'known_id', 'solvers') if k in r}
        samples.append(s)
    ev = {
        'property_id': prop, 'tier': tier, 'seed': seed, 'level': 'model_checking',
        'coverage': {
            'states': max(paths, 1), 'transitions': max(queries, 1),
            'traces_validated_against_impl': validated,
            'samples': samples,
            'obligations': len(main_rows), 'discharged': decided, 'inconclusive': len(inconcl),
            'exhaustive': False,
            'explanation': 'states = symbolic paths executed through the real /repo code by CrossHair plus Engine-A '
                           'path-merged encodings; transitions = SMT queries issued (z3.Solver.check calls); '
                           '"decided" = path tree exhausted with every path unsat (CrossHair CONFIRMED) or Engine-A unsat; '
                           'inconclusive obligations are NOT successes.',
            'functions_encoded': functions,
            'stubs': list(getattr(hmod, 'STUBS', [])),
            'shims': shims,
            'outside_the_claim': list(getattr(hmod, 'OUTSIDE', [])),
            'solver_time_s': round(solver_s, 2),
            'solvers': ['z3 %s (python wheel, via CrossHair 0.0.110)' % _z3v()],
            'repo_source_sha1': _repo_hash(),
            'known_findings_reported': known_lines,
        },
        'assumptions': list(getattr(hmod, 'ASSUMPTIONS', [])) + [
            'CrossHair 0.0.110 models of bytes/bytearray/int/str/dict and its path-exhaustion bookkeeping',
            'shims S1-S12 (vlib/shims.py), each self-tested at the start of this run: %r' % (shim_selftests,),
            'every analysis, replay and sanity input ran with the process time zone TZ=%s (correct code does not depend on it)' % os.environ.get('TZ', '?'),
            'blocks marked native() in the harnesses run without the tracer on values the harness made concrete per path (if-chains over symbolic indices)'],
        'wall_s': round(wall, 1),
        'violations': len(violations),
    }
    os.makedirs(os.path.join(VERIF, 'evidence'), exist_ok=True)
    with open(os.path.join(VERIF, 'evidence', prop + '.json'), 'w') as f:
        json.dump(ev, f, indent=1, default=str)


def _z3v():
    try:
        import z3
        return z3.get_version_string()
    except Exception:
        return '?'


def _repo_hash():
    h = hashlib.sha1()
    root = os.path.join(os.environ.get('VERIF_REPO', '/repo'), 'pgpy')
    for d, _, fs in sorted(os.walk(root)):
        for f in sorted(fs):
            if f.endswith('.py'):
                with open(os.path.join(d, f), 'rb') as fh:
                    h.update(fh.read())
    return h.hexdigest()
