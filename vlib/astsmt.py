"""Engine A: translate leaf integer kernels from their *current* source AST into SMT terms.

State-merging symbolic evaluation (if/else -> ite, bounded loops unrolled, repo callees inlined from their
own source).  Python ints are z3 Ints by default; in BV mode they are bit-vectors of a stated width W and
every +, *, << and unary - adds a *no-overflow side obligation*, so an `unsat` answer is exact for Python's
unbounded ints inside the stated domain (the side obligations are discharged by the same solver run).

Anything outside the supported subset raises Untranslatable -> the obligation is inconclusive (never a
violation).  Supported: Assign/AugAssign/AnnAssign on names, If/elif/else, Return, Expr, Pass, Raise (records a
raise condition), For over range(<concrete>) or a Python list, nested def, Assert; BinOp + - * // % & | ^ << >>
**(concrete), BoolOp, UnaryOp, Compare (chained), IfExp, Subscript of tuple/list/dict constants with symbolic
index (ite chain), calls to max/min/int/bool/len/abs/range, x.bit_length(), repo functions (inlined), and
any sub-expression that evaluates concretely in the function's module namespace (enum members, tables).
"""
import ast
import inspect
import textwrap
import enum

import z3


class Untranslatable(Exception):
    pass


class Ctx:
    def __init__(self, bv=None, maxbits=64):
        self.bv = bv                  # None -> Int mode; W -> BitVec(W) mode
        self.maxbits = maxbits        # bound used for bit_length / symbolic shifts in Int mode
        self.side = []                # (name, z3 Bool that must hold)  -- overflow / division obligations
        self.functions = set()        # qualified names of functions encoded
        self.raises = []              # (exception name, condition)

    # ---- constructors
    def const(self, v):
        if self.bv:
            return z3.BitVecVal(v, self.bv)
        return z3.IntVal(v)

    def var(self, name):
        return z3.BitVec(name, self.bv) if self.bv else z3.Int(name)


def is_sym(v):
    return isinstance(v, z3.ExprRef)


def to_term(ctx, v):
    if is_sym(v):
        if z3.is_bool(v):
            return z3.If(v, ctx.const(1), ctx.const(0))
        return v
    if isinstance(v, bool):
        return ctx.const(int(v))
    if isinstance(v, int):
        return ctx.const(int(v))
    raise Untranslatable('not an integer value: %r' % (v,))


def to_bool(ctx, v):
    if is_sym(v):
        if z3.is_bool(v):
            return v
        return v != ctx.const(0)
    return z3.BoolVal(bool(v))


def ite(ctx, c, a, b):
    """merge two values under condition c"""
    if not is_sym(c):
        return a if c else b
    if not is_sym(a) and not is_sym(b):
        try:
            if a == b and type(a) is type(b):
                return a
        except Exception:
            pass
    if (is_sym(a) and z3.is_bool(a)) or (is_sym(b) and z3.is_bool(b)) or isinstance(a, bool) and isinstance(b, bool):
        return z3.If(c, to_bool(ctx, a), to_bool(ctx, b))
    if isinstance(a, (tuple, list)) and isinstance(b, (tuple, list)) and len(a) == len(b):
        return type(a)(ite(ctx, c, x, y) for x, y in zip(a, b))
    return z3.If(c, to_term(ctx, a), to_term(ctx, b))


class Frame:
    def __init__(self, env, globs):
        self.env = env
        self.globs = globs
        self.returned = z3.BoolVal(False)
        self.ret = None


class Translator:
    def __init__(self, ctx):
        self.ctx = ctx
        self.depth = 0

    # ------------------------------------------------------------------ entry
    def call_function(self, fn, args, pc=None, kwargs=None):
        """symbolically evaluate python function `fn` on argument values; returns the merged return value"""
        fn = inspect.unwrap(fn)
        if isinstance(fn, (staticmethod, classmethod)):
            fn = fn.__func__
        src = textwrap.dedent(inspect.getsource(fn))
        tree = ast.parse(src)
        fdef = tree.body[0]
        if not isinstance(fdef, (ast.FunctionDef,)):
            raise Untranslatable('not a function: %r' % fn)
        self.ctx.functions.add('%s.%s' % (fn.__module__, fn.__qualname__))
        return self.run_def(fdef, args, kwargs or {}, fn.__globals__, pc if pc is not None else z3.BoolVal(True), {})

    def run_def(self, fdef, args, kwargs, globs, pc, closure):
        self.depth += 1
        if self.depth > 12:
            raise Untranslatable('inlining too deep')
        env = dict(closure)
        params = [a.arg for a in fdef.args.args]
        defaults = fdef.args.defaults
        for i, p in enumerate(params):
            if i < len(args):
                env[p] = args[i]
            elif p in kwargs:
                env[p] = kwargs[p]
            else:
                di = i - (len(params) - len(defaults))
                if di < 0:
                    raise Untranslatable('missing argument %s' % p)
                env[p] = self.eval_const(defaults[di], env, globs)
        fr = Frame(env, globs)
        self.exec_block(fdef.body, fr, pc)
        self.depth -= 1
        return fr.ret

    # ------------------------------------------------------------------ statements
    def exec_block(self, stmts, fr, pc):
        for st in stmts:
            live = z3.simplify(z3.And(pc, z3.Not(fr.returned)))
            if z3.is_false(live):
                return
            self.exec_stmt(st, fr, live)

    def assign(self, fr, target, val, pc):
        if isinstance(target, ast.Name):
            fr.env[target.id] = val
        elif isinstance(target, (ast.Tuple, ast.List)) and isinstance(val, (tuple, list)) and len(val) == len(target.elts):
            for t, v in zip(target.elts, val):
                self.assign(fr, t, v, pc)
        else:
            raise Untranslatable('assignment target %s' % ast.dump(target)[:80])

    def exec_stmt(self, st, fr, pc):
        ctx = self.ctx
        if isinstance(st, ast.Return):
            val = self.eval(st.value, fr, pc) if st.value is not None else None
            # pc already excludes earlier returns
            if fr.ret is None and z3.is_false(z3.simplify(fr.returned)):
                fr.ret = val
            else:
                fr.ret = ite(ctx, pc, val, fr.ret)
            fr.returned = z3.simplify(z3.Or(fr.returned, pc))
        elif isinstance(st, ast.Assign):
            val = self.eval(st.value, fr, pc)
            for t in st.targets:
                self.assign(fr, t, val, pc)
        elif isinstance(st, ast.AnnAssign):
            if st.value is not None:
                self.assign(fr, st.target, self.eval(st.value, fr, pc), pc)
        elif isinstance(st, ast.AugAssign):
            cur = self.eval(st.target, fr, pc)
            val = self.binop(st.op, cur, self.eval(st.value, fr, pc), pc)
            self.assign(fr, st.target, val, pc)
        elif isinstance(st, ast.If):
            c = self.eval(st.test, fr, pc)
            if not is_sym(c):
                self.exec_block(st.body if c else st.orelse, fr, pc)
                return
            cb = to_bool(ctx, c)
            f1 = Frame(dict(fr.env), fr.globs)
            f1.returned, f1.ret = fr.returned, fr.ret
            f2 = Frame(dict(fr.env), fr.globs)
            f2.returned, f2.ret = fr.returned, fr.ret
            self.exec_block(st.body, f1, z3.And(pc, cb))
            self.exec_block(st.orelse, f2, z3.And(pc, z3.Not(cb)))
            for k in set(f1.env) | set(f2.env):
                if k in f1.env and k in f2.env:
                    a, b = f1.env[k], f2.env[k]
                    fr.env[k] = a if a is b else self.merge(cb, a, b, k)
                else:
                    fr.env[k] = f1.env.get(k, f2.env.get(k))      # defined on one side only
            # return values: each branch already folded its own returns under its own pc
            r1, r2 = f1.ret, f2.ret
            if r1 is None:
                fr.ret = r2
            elif r2 is None:
                fr.ret = r1
            else:
                fr.ret = r1 if r1 is r2 else self.merge(cb, r1, r2, '<return>')
            fr.returned = z3.simplify(z3.Or(f1.returned, f2.returned))
        elif isinstance(st, ast.For):
            it = self.eval(st.iter, fr, pc)
            if is_sym(it) or not isinstance(it, (range, list, tuple)):
                raise Untranslatable('for over non-concrete iterable')
            if st.orelse:
                raise Untranslatable('for/else')
            for v in it:
                self.assign(fr, st.target, v, pc)
                self.exec_block(st.body, fr, pc)
        elif isinstance(st, ast.FunctionDef):
            fr.env[st.name] = ('__def__', st, fr)
        elif isinstance(st, ast.Expr):
            if isinstance(st.value, ast.Constant):
                return
            self.eval(st.value, fr, pc)
        elif isinstance(st, ast.Pass):
            return
        elif isinstance(st, ast.Assert):
            c = self.eval(st.test, fr, pc)
            self.ctx.raises.append(('AssertionError', z3.And(pc, z3.Not(to_bool(ctx, c)))))
        elif isinstance(st, ast.Raise):
            name = ast.unparse(st.exc)[:60] if st.exc is not None else 're-raise'
            self.ctx.raises.append((name, pc))
            fr.returned = z3.simplify(z3.Or(fr.returned, pc))
        else:
            raise Untranslatable('statement %s' % type(st).__name__)

    def merge(self, c, a, b, name):
        try:
            return ite(self.ctx, c, a, b)
        except Untranslatable:
            raise Untranslatable('cannot merge %s: %r / %r' % (name, a, b))

    # ------------------------------------------------------------------ expressions
    def eval_const(self, node, env, globs):
        try:
            return eval(compile(ast.Expression(node), '<astsmt>', 'eval'), globs, {k: v for k, v in env.items() if not is_sym(v)})
        except Exception as e:
            raise Untranslatable('constant expression %s: %r' % (ast.unparse(node)[:60], e))

    def eval(self, node, fr, pc):
        ctx = self.ctx
        if isinstance(node, ast.Constant):
            return node.value
        if isinstance(node, ast.Name):
            if node.id in fr.env:
                return fr.env[node.id]
            if node.id in fr.globs:
                return fr.globs[node.id]
            import builtins
            if hasattr(builtins, node.id):
                return getattr(builtins, node.id)
            raise Untranslatable('unbound name %s' % node.id)
        if isinstance(node, ast.Attribute):
            base = self.eval(node.value, fr, pc)
            if is_sym(base):
                raise Untranslatable('attribute %s of symbolic value' % node.attr)
            try:
                return getattr(base, node.attr)
            except AttributeError as e:
                if node.attr.startswith('__') and not node.attr.endswith('__') and isinstance(base, type):
                    for k in base.__mro__:                    # private name mangling inside a class body
                        m = '_%s%s' % (k.__name__.lstrip('_'), node.attr)
                        if hasattr(base, m):
                            return getattr(base, m)
                raise Untranslatable(str(e))
        if isinstance(node, ast.Tuple):
            return tuple(self.eval(e, fr, pc) for e in node.elts)
        if isinstance(node, ast.List):
            return [self.eval(e, fr, pc) for e in node.elts]
        if isinstance(node, ast.Set):
            return frozenset(self.hashable(self.eval(e, fr, pc)) for e in node.elts)
        if isinstance(node, ast.Dict):
            return {self.hashable(self.eval(k, fr, pc)): self.eval(v, fr, pc) for k, v in zip(node.keys, node.values)}
        if isinstance(node, ast.BinOp):
            return self.binop(node.op, self.eval(node.left, fr, pc), self.eval(node.right, fr, pc), pc)
        if isinstance(node, ast.UnaryOp):
            v = self.eval(node.operand, fr, pc)
            if not is_sym(v):
                return {ast.Not: lambda x: not x, ast.USub: lambda x: -x, ast.Invert: lambda x: ~x, ast.UAdd: lambda x: +x}[type(node.op)](v)
            if isinstance(node.op, ast.Not):
                return z3.Not(to_bool(ctx, v))
            if isinstance(node.op, ast.USub):
                if ctx.bv:
                    raise Untranslatable('negation in BV mode')
                return -to_term(ctx, v)
            raise Untranslatable('unary %s on symbolic' % type(node.op).__name__)
        if isinstance(node, ast.BoolOp):
            vals = [self.eval(v, fr, pc) for v in node.values]      # operands here are side-effect free
            if all(not is_sym(v) for v in vals):
                r = vals[0]
                for v in vals[1:]:
                    r = (r and v) if isinstance(node.op, ast.And) else (r or v)
                return r
            if all((is_sym(v) and z3.is_bool(v)) or isinstance(v, bool) for v in vals):
                bs = [to_bool(ctx, v) for v in vals]
                return z3.And(*bs) if isinstance(node.op, ast.And) else z3.Or(*bs)
            # python value semantics: a and b -> b if a else a
            r = vals[-1]
            for v in reversed(vals[:-1]):
                c = to_bool(ctx, v)
                r = ite(ctx, c, r, v) if isinstance(node.op, ast.And) else ite(ctx, c, v, r)
            return r
        if isinstance(node, ast.Compare):
            left = self.eval(node.left, fr, pc)
            conds = []
            for op, rn in zip(node.ops, node.comparators):
                right = self.eval(rn, fr, pc)
                conds.append(self.compare(op, left, right))
                left = right
            if all(not is_sym(c) for c in conds):
                return all(conds)
            return z3.And(*[to_bool(ctx, c) for c in conds])
        if isinstance(node, ast.IfExp):
            c = self.eval(node.test, fr, pc)
            if not is_sym(c):
                return self.eval(node.body if c else node.orelse, fr, pc)
            cb = to_bool(ctx, c)
            return ite(ctx, cb, self.eval(node.body, fr, z3.And(pc, cb)), self.eval(node.orelse, fr, z3.And(pc, z3.Not(cb))))
        if isinstance(node, ast.Subscript):
            base = self.eval(node.value, fr, pc)
            idx = self.eval(node.slice, fr, pc)
            if is_sym(base):
                raise Untranslatable('subscript of symbolic value')
            if not is_sym(idx):
                try:
                    return base[idx]
                except Exception as e:
                    raise Untranslatable('subscript: %r' % e)
            # symbolic index into a concrete table: ite chain; a miss is a raise condition
            items = list(base.items()) if isinstance(base, dict) else list(enumerate(base))
            if not items or len(items) > 4096:
                raise Untranslatable('table too large/empty')
            t = to_term(ctx, idx)
            hit = z3.Or(*[t == to_term(ctx, k) for k, _ in items])
            self.ctx.raises.append(('KeyError/IndexError', z3.And(pc, z3.Not(hit))))
            r = items[-1][1]
            for k, v in reversed(items[:-1]):
                r = ite(ctx, t == to_term(ctx, k), v, r)
            return r
        if isinstance(node, ast.Call):
            return self.call(node, fr, pc)
        raise Untranslatable('expression %s' % type(node).__name__)

    def hashable(self, k):
        if is_sym(k):
            raise Untranslatable('symbolic dict key in literal')
        return k

    def compare(self, op, a, b):
        ctx = self.ctx
        if not is_sym(a) and not is_sym(b):
            import operator as o
            table = {ast.Eq: o.eq, ast.NotEq: o.ne, ast.Lt: o.lt, ast.LtE: o.le, ast.Gt: o.gt, ast.GtE: o.ge,
                     ast.Is: o.is_, ast.IsNot: o.is_not, ast.In: lambda x, y: x in y, ast.NotIn: lambda x, y: x not in y}
            return table[type(op)](a, b)
        if isinstance(op, (ast.In, ast.NotIn)):
            if is_sym(b):
                raise Untranslatable('in symbolic container')
            elems = list(b)
            r = z3.Or(*[to_term(ctx, a) == to_term(ctx, e) for e in elems]) if elems else z3.BoolVal(False)
            return r if isinstance(op, ast.In) else z3.Not(r)
        if (is_sym(a) and z3.is_bool(a)) or (is_sym(b) and z3.is_bool(b)):
            if isinstance(op, ast.Eq):
                return to_bool(ctx, a) == to_bool(ctx, b)
            if isinstance(op, ast.NotEq):
                return to_bool(ctx, a) != to_bool(ctx, b)
        x, y = to_term(ctx, a), to_term(ctx, b)
        if ctx.bv:
            table = {ast.Eq: lambda: x == y, ast.NotEq: lambda: x != y, ast.Lt: lambda: z3.ULT(x, y), ast.LtE: lambda: z3.ULE(x, y),
                     ast.Gt: lambda: z3.UGT(x, y), ast.GtE: lambda: z3.UGE(x, y)}
        else:
            table = {ast.Eq: lambda: x == y, ast.NotEq: lambda: x != y, ast.Lt: lambda: x < y, ast.LtE: lambda: x <= y,
                     ast.Gt: lambda: x > y, ast.GtE: lambda: x >= y}
        if type(op) not in table:
            raise Untranslatable('comparison %s' % type(op).__name__)
        return table[type(op)]()

    def pow2(self, k, maxk):
        """2**k for symbolic non-negative k <= maxk (Int mode)"""
        r = self.ctx.const(2 ** maxk)
        for i in range(maxk - 1, -1, -1):
            r = z3.If(k == i, self.ctx.const(2 ** i), r)
        return r

    def binop(self, op, a, b, pc):
        ctx = self.ctx
        if not is_sym(a) and not is_sym(b):
            import operator as o
            table = {ast.Add: o.add, ast.Sub: o.sub, ast.Mult: o.mul, ast.FloorDiv: o.floordiv, ast.Mod: o.mod,
                     ast.BitAnd: o.and_, ast.BitOr: o.or_, ast.BitXor: o.xor, ast.LShift: o.lshift, ast.RShift: o.rshift,
                     ast.Pow: o.pow, ast.Div: o.truediv}
            if isinstance(op, (ast.FloorDiv, ast.Mod, ast.Div)) and b == 0:
                ctx.raises.append(('ZeroDivisionError', pc))
                return 0
            return table[type(op)](a, b)
        if isinstance(a, (bytes, bytearray, str, list, tuple)) or isinstance(b, (bytes, bytearray, str, list, tuple)):
            raise Untranslatable('sequence operand with a symbolic value')
        x, y = to_term(ctx, a), to_term(ctx, b)
        if ctx.bv:
            W = ctx.bv
            if isinstance(op, ast.Add):
                ctx.side.append(('add-no-overflow', z3.Implies(pc, z3.BVAddNoOverflow(x, y, False))))
                return x + y
            if isinstance(op, ast.Sub):
                ctx.side.append(('sub-no-underflow', z3.Implies(pc, z3.UGE(x, y))))
                return x - y
            if isinstance(op, ast.Mult):
                ctx.side.append(('mul-no-overflow', z3.Implies(pc, z3.BVMulNoOverflow(x, y, False))))
                return x * y
            if isinstance(op, ast.BitAnd):
                return x & y
            if isinstance(op, ast.BitOr):
                return x | y
            if isinstance(op, ast.BitXor):
                return x ^ y
            if isinstance(op, ast.LShift):
                r = x << y
                ctx.side.append(('shl-no-overflow', z3.Implies(pc, z3.And(z3.ULT(y, W), z3.LShR(r, y) == x))))
                return r
            if isinstance(op, ast.RShift):
                return z3.LShR(x, y)
            if isinstance(op, (ast.FloorDiv, ast.Mod)):
                ctx.raises.append(('ZeroDivisionError', z3.And(pc, y == 0)))
                return z3.UDiv(x, y) if isinstance(op, ast.FloorDiv) else z3.URem(x, y)
            raise Untranslatable('operator %s in BV mode' % type(op).__name__)
        # ---- Int mode (operands assumed non-negative where bit operations are used; obligation recorded)
        if isinstance(op, ast.Add):
            return x + y
        if isinstance(op, ast.Sub):
            return x - y
        if isinstance(op, ast.Mult):
            return x * y
        if isinstance(op, (ast.FloorDiv, ast.Mod)):
            ctx.raises.append(('ZeroDivisionError', z3.And(pc, y == 0)))
            # python floor semantics == SMT-LIB div/mod for positive divisor; record that
            ctx.side.append(('divisor-positive', z3.Implies(z3.And(pc, y != 0), y > 0)))
            return x / y if isinstance(op, ast.FloorDiv) else x % y
        if isinstance(op, (ast.BitAnd, ast.BitOr, ast.BitXor)):
            from vlib.shims import and_const_term
            if not is_sym(b) or not is_sym(a):
                t, c = (x, int(b)) if not is_sym(b) else (y, int(a))
                if c < 0:
                    raise Untranslatable('negative mask')
                ctx.side.append(('bitop-nonneg', z3.Implies(pc, t >= 0)))
                m = and_const_term(t, c)
                return m if isinstance(op, ast.BitAnd) else (t + c - m if isinstance(op, ast.BitOr) else t + c - 2 * m)
            Wd = ctx.maxbits
            ctx.side.append(('bitop-range', z3.Implies(pc, z3.And(x >= 0, x < 2 ** Wd, y >= 0, y < 2 ** Wd))))
            va, vb = z3.Int2BV(x, Wd), z3.Int2BV(y, Wd)
            r = va & vb if isinstance(op, ast.BitAnd) else va | vb if isinstance(op, ast.BitOr) else va ^ vb
            return z3.BV2Int(r, False)
        if isinstance(op, (ast.LShift, ast.RShift)):
            if is_sym(b):
                ctx.side.append(('shift-range', z3.Implies(pc, z3.And(y >= 0, y <= ctx.maxbits))))
                p = self.pow2(y, ctx.maxbits)
            else:
                p = ctx.const(2 ** int(b))
            if isinstance(op, ast.LShift):
                return x * p
            ctx.side.append(('shr-nonneg', z3.Implies(pc, x >= 0)))
            return x / p
        if isinstance(op, ast.Pow) and not is_sym(b) and int(b) >= 0:
            r = ctx.const(1)
            for _ in range(int(b)):
                r = r * x
            return r
        raise Untranslatable('operator %s' % type(op).__name__)

    # ------------------------------------------------------------------ calls
    def call(self, node, fr, pc):
        ctx = self.ctx
        # method call on a symbolic int
        if isinstance(node.func, ast.Attribute):
            base = self.eval(node.func.value, fr, pc)
            if is_sym(base):
                if node.func.attr == 'bit_length' and not node.args:
                    return self.bit_length(base, pc)
                raise Untranslatable('method %s on symbolic value' % node.func.attr)
            try:
                f = getattr(base, node.func.attr)
            except AttributeError as e:
                raise Untranslatable(str(e))
        else:
            f = self.eval(node.func, fr, pc)
        args = [self.eval(a, fr, pc) for a in node.args]
        kwargs = {k.arg: self.eval(k.value, fr, pc) for k in node.keywords}
        if isinstance(f, tuple) and len(f) == 3 and f[0] == '__def__':
            return self.run_def(f[1], args, kwargs, f[2].globs, pc, f[2].env)
        anysym = any(is_sym(a) for a in args) or any(is_sym(v) for v in kwargs.values())
        if not anysym and not isinstance(f, tuple):
            if f in (max, min, int, bool, len, abs, range, sum, tuple, list, sorted) or isinstance(f, type) and issubclass(f, enum.Enum):
                try:
                    return f(*args, **kwargs)
                except Exception as e:
                    raise Untranslatable('concrete call failed: %r' % e)
        if f is max or f is min:
            vals = list(args[0]) if len(args) == 1 else args
            r = vals[0]
            for v in vals[1:]:
                c = self.compare(ast.GtE() if f is max else ast.LtE(), r, v)
                r = ite(ctx, c, r, v)
            return r
        if f is int:
            return to_term(ctx, args[0]) if is_sym(args[0]) else int(args[0])
        if f is bool:
            return to_bool(ctx, args[0])
        if f is abs:
            t = to_term(ctx, args[0])
            return z3.If(t >= 0, t, -t)
        if f is len and not is_sym(args[0]):
            return len(args[0])
        if inspect.isfunction(f) or inspect.ismethod(f):
            if inspect.ismethod(f):
                args = [f.__self__] + args
                f = f.__func__
            return self.call_function(f, args, pc, kwargs)
        raise Untranslatable('call to %r' % (f,))

    def bit_length(self, x, pc):
        ctx = self.ctx
        t = to_term(ctx, x)
        n = ctx.bv or ctx.maxbits
        if ctx.bv:
            r = ctx.const(n)
            for i in range(n - 1, -1, -1):
                r = z3.If(z3.ULT(t, ctx.const(2 ** i)), ctx.const(i), r)
            return r
        ctx.side.append(('bit_length-range', z3.Implies(pc, z3.And(t >= 0, t < 2 ** n))))
        r = ctx.const(n)
        for i in range(n - 1, -1, -1):
            r = z3.If(t < 2 ** i, ctx.const(i), r)
        return r


# ---------------------------------------------------------------------------------------- solving
def smt2_of(assertions, logic=None):
    s = z3.Solver()
    for a in assertions:
        s.add(a)
    return s.to_smt2()


def decide(assertions, timeout_s=120, cross=False):
    """returns ('unsat'|'sat'|'unknown', model|None, detail)"""
    import subprocess
    import tempfile
    import os
    import time
    s = z3.Solver()
    s.set('timeout', int(timeout_s * 1000))
    for a in assertions:
        s.add(a)
    t0 = time.time()
    r = str(s.check())
    detail = {'z3py': r, 'z3py_s': round(time.time() - t0, 3)}
    model = s.model() if r == 'sat' else None
    if cross:
        text = s.to_smt2()
        fd, path = tempfile.mkstemp(suffix='.smt2', dir=os.environ.get('VERIF_TMP', None))
        os.close(fd)
        with open(path, 'w') as f:
            f.write(text)
        for name, cmd in (('z3-4.8.12', ['/usr/bin/z3', '-T:%d' % int(timeout_s), path]),
                          ('cvc5-1.0.3', ['cvc5', '--tlimit=%d' % int(timeout_s * 1000), path])):
            t1 = time.time()
            try:
                out = subprocess.run(cmd, capture_output=True, text=True, timeout=timeout_s + 10).stdout
            except Exception as e:
                out = 'error %r' % e
            first = (out.strip().splitlines() or ['?'])[0]
            if '(error' in out:
                first = 'error'
            detail[name] = first
            detail[name + '_s'] = round(time.time() - t1, 3)
        os.unlink(path)
    return r, model, detail


def check_claim(build, counterexample_call, cross=False, timeout_s=120, bv=None, maxbits=64):
    """Discharge one Engine-A obligation.

    build(tr) -> (pre: list of Bool, claim: Bool, vars: dict name -> z3 const)      (tr: Translator)
    counterexample_call(values: dict name -> int) -> python expression (str) replayed natively by the driver
    The query is  pre AND NOT(claim AND side-obligations AND no-unexpected-raise);  unsat = holds on the domain.
    """
    import time
    ctx = Ctx(bv=bv, maxbits=maxbits)
    tr = Translator(ctx)
    pre, claim, vars_ = build(tr)
    side = [c for _, c in ctx.side]
    raises = [c for _, c in ctx.raises]
    good = z3.And(claim, *side) if side else claim
    if raises:
        good = z3.And(good, z3.Not(z3.Or(*raises)))
    t0 = time.time()
    r0, _, d0 = decide(list(pre), timeout_s, False)                       # vacuity: the domain is inhabited
    r, model, d = decide(list(pre) + [z3.Not(good)], timeout_s, cross)
    out = {'queries': 2 + (2 if cross else 0), 'solver_s': round(time.time() - t0, 3), 'solvers': d,
           'functions': sorted(ctx.functions), 'side_obligations': len(side), 'raise_conditions': len(raises),
           'encodings': 1}
    if r0 != 'sat':
        out.update(status='inconclusive', why='precondition not satisfiable (%s): vacuous' % r0)
    elif r == 'unsat':
        others = [v for k, v in d.items() if not k.endswith('_s') and k != 'z3py']
        if any(v not in ('unsat',) for v in others):
            out.update(status='inconclusive', why='solvers disagree or failed: %r' % d)
        else:
            out.update(status='decided')
    elif r == 'sat':
        vals = {}
        for k, v in vars_.items():
            mv = model.eval(v, model_completion=True)
            vals[k] = mv.as_long() if hasattr(mv, 'as_long') else bool(mv)
        out.update(status='refuted', call=counterexample_call(vals), model=vals)
    else:
        out.update(status='inconclusive', why='solver returned %s' % r)
    return out
