"""Tool adaptations that let CrossHair 0.0.110 execute PGPy's real code symbolically (DESIGN.md 2.2).

Installed only inside an analysis child process (vlib.runone); never during native replay.
Every shim has a concrete self-test (`selftest()`), run at the start of every check.
"""
import ast
import binascii as _real_binascii
import enum as _enum
import importlib
import inspect
import operator as ops
import pkgutil
import textwrap
from numbers import Integral

W = 64            # width used when two symbolic ints meet in a bit operation
INSTALLED = []    # names of shims installed in this process (reported in evidence)


# ----------------------------------------------------------------------------------------- S1
def s1_sdproperty():
    """sdproperty dispatches on args[0].__class__: register CrossHair's symbolic twins."""
    import pgpy
    from crosshair.libimpl import builtinslib as bl
    import crosshair.simplestructs as ss
    sym = {bytearray: [bl.SymbolicByteArray], bytes: [bl.SymbolicBytes], int: [bl.SymbolicInt],
           str: [bl.LazyIntSymbolicStr], bool: [bl.SymbolicBool],
           set: [ss.ShellMutableSet], list: [ss.ShellMutableSequence], dict: [ss.ShellMutableMap]}
    import datetime as _dt
    from crosshair.libimpl import datetimelib as dl           # CrossHair substitutes its own datetime classes while tracing
    for real, name in ((_dt.timedelta, 'timedelta'), (_dt.datetime, 'datetime'), (_dt.date, 'date')):
        if hasattr(dl, name):
            sym[real] = [getattr(dl, name)]
    n = 0
    mods = [importlib.import_module(m.name) for m in pkgutil.walk_packages(pgpy.__path__, 'pgpy.')]
    for mod in mods:
        for _, cls in inspect.getmembers(mod, inspect.isclass):
            for name, attr in list(vars(cls).items()):
                if isinstance(attr, property) and hasattr(attr.fset, 'registry'):
                    reg = attr.fset.registry
                    for base, syms in sym.items():
                        if base in reg:
                            for s in syms:
                                if s not in reg:
                                    attr.fset.register(s, reg[base])
                                    n += 1
    assert n > 0, 'no sdproperty registry found'
    INSTALLED.append('S1 sdproperty symbolic twins (%d registrations)' % n)
    return n


# ----------------------------------------------------------------------------------------- S2
def s2_metaclass_call():
    import crosshair.enforce as E
    orig = E.manual_constructor
    if getattr(orig, '_verif', False):
        return

    def manual_constructor(typ):
        if type(typ).__call__ is not type.__call__:
            return typ
        return orig(typ)
    manual_constructor._verif = True
    E.manual_constructor = manual_constructor
    INSTALLED.append('S2 metaclass __call__ honoured')


# ----------------------------------------------------------------------------------------- S3
def _deeply_concrete(k):
    if isinstance(k, tuple):
        return all(_deeply_concrete(x) for x in k)
    return type(k) in (int, str, bool, bytes, float, type(None)) or isinstance(k, _enum.Enum)


def s3_mapadd():
    import crosshair.opcode_intercept as OI
    from crosshair.tracers import frame_stack_read
    orig = OI.MapAddInterceptor.trace_op
    if getattr(orig, '_verif', False):
        return

    def trace_op(self, frame, codeobj, codenum):
        if _deeply_concrete(frame_stack_read(frame, -2)):
            return
        return orig(self, frame, codeobj, codenum)
    trace_op._verif = True
    OI.MapAddInterceptor.trace_op = trace_op
    INSTALLED.append('S3 MAP_ADD left alone for concrete keys')


# ----------------------------------------------------------------------------------------- S4
def and_const_term(t, c):
    """z3 Int term for (t & c), t >= 0, c a concrete non-negative int: sum over runs of set bits."""
    import z3
    out = z3.IntVal(0)
    i = 0
    while c >> i:
        if (c >> i) & 1:
            j = i
            while (c >> j) & 1:
                j += 1
            out = out + ((t / (2 ** i)) % (2 ** (j - i))) * (2 ** i)
            i = j
        else:
            i += 1
    return out


def s4_bitops():
    import z3
    from crosshair.libimpl import builtinslib as bl
    from crosshair.statespace import context_statespace
    from crosshair.tracers import NoTracing
    from crosshair.core import realize

    def term(x):
        if isinstance(x, bl.SymbolicInt):
            return x.var
        if isinstance(x, bool) or not isinstance(x, int):
            return None
        return z3.IntVal(x)

    def bitop(op, a: Integral, b: Integral):
        with NoTracing():
            if not (isinstance(a, bl.SymbolicInt) or isinstance(b, bl.SymbolicInt)):
                return op(realize(a), realize(b))
            ta, tb = term(a), term(b)
            if ta is None or tb is None:
                return op(realize(a), realize(b))
            space = context_statespace()
            lim = z3.IntVal(2 ** W)
            inrange = z3.And(ta >= 0, ta < lim, tb >= 0, tb < lim)
            if not space.smt_fork(inrange, probability_true=0.99):
                return op(realize(a), realize(b))     # negative / huge: CrossHair's own behaviour
            if op is ops.and_ and not isinstance(b, bl.SymbolicInt):
                return bl.SymbolicInt(and_const_term(ta, int(b)))
            if op is ops.and_ and not isinstance(a, bl.SymbolicInt):
                return bl.SymbolicInt(and_const_term(tb, int(a)))
            if op is ops.or_ and not isinstance(b, bl.SymbolicInt):      # x | c = x + c - (x & c)
                return bl.SymbolicInt(ta + int(b) - and_const_term(ta, int(b)))
            if op is ops.or_ and not isinstance(a, bl.SymbolicInt):
                return bl.SymbolicInt(tb + int(a) - and_const_term(tb, int(a)))
            if op is ops.xor and not isinstance(b, bl.SymbolicInt):      # x ^ c = x + c - 2(x & c)
                return bl.SymbolicInt(ta + int(b) - 2 * and_const_term(ta, int(b)))
            if op is ops.xor and not isinstance(a, bl.SymbolicInt):
                return bl.SymbolicInt(tb + int(a) - 2 * and_const_term(tb, int(a)))
            va, vb = z3.Int2BV(ta, W), z3.Int2BV(tb, W)
            r = {ops.and_: va & vb, ops.or_: va | vb, ops.xor: va ^ vb}[op]
            return bl.SymbolicInt(z3.BV2Int(r, False))

    bl.setup_binop(bitop, {ops.and_, ops.or_, ops.xor})
    bl._BIN_OPS.clear()
    INSTALLED.append('S4 int &,|,^ as LIA div/mod (constant operand) or Int2BV(64)')


def s4_selftest():
    """the constant-mask formulas against Python on all 8-bit pairs and random 40-bit pairs"""
    import random
    import z3
    rnd = random.Random(4)
    pairs = [(a, b) for a in range(0, 256, 1) for b in (0, 1, 0x0F, 0x1F, 0x3F, 0x40, 0x7F, 0x80, 0xC0, 0xFF, 0xAA, 0x55)]
    pairs += [(rnd.getrandbits(40), rnd.getrandbits(40)) for _ in range(2000)]
    pairs += [(rnd.getrandbits(32), c) for c in (0xFF00, 0xFF, 0xFF0000, 0xFF000000, 0x1000000, 0xFFFFFF, 0x1F, 0xE0)
              for _ in range(100)]
    n = 0
    for a, c in pairs:
        t = z3.IntVal(a)
        v = z3.simplify(and_const_term(t, c)).as_long()
        assert v == a & c, (a, c, v)
        assert a + c - v == a | c and a + c - 2 * v == a ^ c
        n += 1
    return n


# ----------------------------------------------------------------------------------------- S5
class IntBox:
    """stand-in for `int` as base class of MPI: holds a (possibly symbolic) integer in .v"""
    __slots__ = ('v',)

    @staticmethod
    def _box(cls, v):
        if isinstance(v, IntBox):
            v = v.v
        o = object.__new__(cls)
        o.v = v
        return o

    def __index__(self):
        return ops.index(self.v)

    def __int__(self):
        return int(self.v)

    def __bool__(self):
        return self.v != 0

    def __hash__(self):
        return hash(self.v)

    def __repr__(self):
        return 'MPI(%r)' % (self.v,)

    def bit_length(self):
        return self.v.bit_length()

    def to_bytes(self, *a, **k):
        return self.v.to_bytes(*a, **k)

    def __copy__(self):
        return IntBox._box(type(self), self.v)

    def __deepcopy__(self, memo):
        return IntBox._box(type(self), self.v)

    def __neg__(self):
        return -self.v


def _u(x):
    return x.v if isinstance(x, IntBox) else x


for _name in ('add', 'sub', 'mul', 'floordiv', 'mod', 'and_', 'or_', 'xor', 'lshift', 'rshift', 'pow',
              'eq', 'ne', 'lt', 'le', 'gt', 'ge'):
    _op = getattr(ops, _name)
    _d = _name.rstrip('_')
    setattr(IntBox, '__%s__' % _d, (lambda op: lambda s, o: op(s.v, _u(o)))(_op))
    if _name not in ('eq', 'ne', 'lt', 'le', 'gt', 'ge'):
        setattr(IntBox, '__r%s__' % _d, (lambda op: lambda s, o: op(_u(o), s.v))(_op))


def build_symmpi():
    """Rebuild pgpy.packet.types.MPI from its *current* source with `int` replaced by IntBox."""
    import pgpy.packet.types as T
    src = textwrap.dedent(inspect.getsource(T.MPI))
    tree = ast.parse(src)
    cls = tree.body[0]
    assert isinstance(cls, ast.ClassDef) and cls.name == 'MPI'
    assert [getattr(b, 'id', None) for b in cls.bases] in (['int'], ['long']), 'MPI base changed'
    cls.bases = [ast.Name('_IntBox', ast.Load())]
    n = 0
    for node in ast.walk(cls):
        if (isinstance(node, ast.Call) and isinstance(node.func, ast.Attribute) and node.func.attr == '__new__'
                and isinstance(node.func.value, ast.Call) and getattr(node.func.value.func, 'id', '') == 'super'):
            node.func = ast.Attribute(ast.Name('_IntBox', ast.Load()), '_box', ast.Load())
            n += 1
    assert n == 1, 'MPI.__new__ changed shape'
    ast.fix_missing_locations(tree)
    ns = dict(T.__dict__)
    ns['_IntBox'] = IntBox
    exec(compile(tree, inspect.getsourcefile(T.MPI), 'exec'), ns)
    return ns['MPI']


def s5_symmpi():
    import pgpy.packet.types as T
    import pgpy.packet.fields as F
    import pgpy.packet.packets as P
    M = build_symmpi()
    for mod in (T, F, P):
        if getattr(mod, 'MPI', None) is not None:
            mod.MPI = M
    INSTALLED.append('S5 SymMPI rebuilt from current MPI source (base int -> box)')
    return M


def s5_selftest():
    import pgpy.packet.types as T
    real = T.MPI if T.MPI.__mro__[1] is int else None
    if real is None:
        return 0
    M = build_symmpi()
    n = 0
    grid = list(range(0, 1025)) + [2 ** k + d for k in range(10, 70) for d in (-1, 0, 1)]
    for v in grid:
        a, b = real(v), M(v)
        assert bytes(a.to_mpibytes()) == bytes(b.to_mpibytes()), v
        assert a.byte_length() == b.byte_length() and len(a) == len(b), v
        enc = bytearray(a.to_mpibytes()) + b'\xAA'
        e2 = bytearray(enc)
        assert int(real(enc)) == int(M(e2)) and enc == e2, v
        n += 1
    return n


# ----------------------------------------------------------------------------------------- S6 / S7
def hexlify_model(data, *a):
    out = bytearray()
    for b in data:
        hi = b // 16
        lo = b % 16
        out.append(hi + 48 + 39 * (hi // 10))
        out.append(lo + 48 + 39 * (lo // 10))
    return bytes(out)


def unhexlify_model(s):
    if isinstance(s, LazyHex):
        return s.src
    if isinstance(s, str):
        s = s.encode('ascii')
    if len(s) % 2:
        raise _real_binascii.Error('Odd-length string')
    out = bytearray()
    ok = True
    for i in range(0, len(s), 2):
        vals = []
        for c in (s[i], s[i + 1]):
            ok = ok and ((48 <= c) & (c <= 57) | (65 <= c) & (c <= 70) | (97 <= c) & (c <= 102))
            vals.append(c % 16 + 9 * (c // 64))
        if not ok:
            raise _real_binascii.Error('Non-hexadecimal digit found')
        out.append(vals[0] * 16 + vals[1])
    return bytes(out)


class LazyHex:
    """what hexlify() returns under the shim: remembers the octets it renders.

    `.upper()/.decode()/.encode()` return a LazyHex again; unhexlify gives the octets back unchanged;
    comparison with another LazyHex compares octets (hex rendering is injective); anything else
    materialises through the arithmetic model."""
    __slots__ = ('src', 'up', 'text')

    def __init__(self, src, up=False, text=False):
        self.src = bytes(src) if not isinstance(src, (bytes, bytearray)) else src
        self.up = up
        self.text = text

    def materialise(self):
        b = hexlify_model(self.src)
        if self.up:
            b = b.upper()
        return b.decode('latin-1') if self.text else b

    def upper(self):
        return LazyHex(self.src, True, self.text)

    def lower(self):
        return LazyHex(self.src, False, self.text)

    def decode(self, *a):
        return LazyHex(self.src, self.up, True)

    def encode(self, *a):
        return LazyHex(self.src, self.up, False)

    def __len__(self):
        return 2 * len(self.src)

    def __eq__(self, o):
        if isinstance(o, LazyHex):
            return self.src == o.src and (self.up == o.up or not any(b for b in ()))
        return self.materialise() == o

    def __ne__(self, o):
        return not self.__eq__(o)

    def __hash__(self):
        return hash(self.materialise())

    def __str__(self):
        m = self.materialise()
        return m if isinstance(m, str) else str(m)

    def __repr__(self):
        return repr(self.materialise())

    def __getitem__(self, i):
        return self.materialise()[i]

    def __iter__(self):
        return iter(self.materialise())

    def __contains__(self, x):
        return x in self.materialise()

    def replace(self, *a):
        return self.materialise().replace(*a)

    def __bytes__(self):
        m = self.materialise()
        return m if isinstance(m, bytes) else m.encode('latin-1')

    def __format__(self, spec):
        return format(str(self), spec)


def hexlify_lazy(data, *a):
    return LazyHex(data)


def s6_hex(lazy=False):
    import pgpy
    h = hexlify_lazy if lazy else hexlify_model
    model = type('binascii_model', (), {'hexlify': staticmethod(h), 'unhexlify': staticmethod(unhexlify_model),
                                        'Error': _real_binascii.Error, 'b2a_hex': staticmethod(h),
                                        'a2b_hex': staticmethod(unhexlify_model)})
    n = 0
    for m in pkgutil.walk_packages(pgpy.__path__, 'pgpy.'):
        mod = importlib.import_module(m.name)
        if hasattr(mod, 'binascii'):
            mod.binascii = model
            n += 1
    INSTALLED.append('S6 binascii hexlify/unhexlify arithmetic model%s (%d modules)' % (' + lazy wrapper' if lazy else '', n))


def s6_selftest():
    n = 0
    for v in range(256):
        assert hexlify_model(bytes([v])) == _real_binascii.hexlify(bytes([v]))
        n += 1
    for a in range(256):
        for b in (48, 57, 65, 70, 97, 102, 47, 58, 64, 71, 96, 103, 0, 255):
            for s in (bytes([a, b]), bytes([b, a])):
                try:
                    r = _real_binascii.unhexlify(s)
                except _real_binascii.Error:
                    r = None
                try:
                    m = unhexlify_model(s)
                except _real_binascii.Error:
                    m = None
                assert r == m, (s, r, m)
                n += 1
    lz = LazyHex(b'\x0a\xff')
    assert lz.upper().decode('latin-1') == '0AFF' and unhexlify_model(lz.upper().decode('latin-1')) == b'\x0a\xff'
    return n


def s7_bytes_eq():
    import pgpy
    ct = type('ct_model', (), {'bytes_eq': staticmethod(lambda a, b: a == b)})
    n = 0
    for m in pkgutil.walk_packages(pgpy.__path__, 'pgpy.'):
        mod = importlib.import_module(m.name)
        if hasattr(mod, 'constant_time'):
            mod.constant_time = ct
            n += 1
    INSTALLED.append('S7 constant_time.bytes_eq -> == (%d modules)' % n)


# ----------------------------------------------------------------------------------------- S8
def s8_bytes_mul():
    from crosshair.libimpl import builtinslib as bl
    from crosshair.core import realize

    def bytes_mul(self, n):
        n = realize(n)
        if not isinstance(n, int):
            return NotImplemented
        items = list(self) * max(n, 0)          # flat list of (symbolic) octets: no nesting of concatenations
        return bytearray(items) if isinstance(self, bl.SymbolicByteArray) else bytes(items)
    for c in (bl.SymbolicBytes, bl.SymbolicByteArray):
        c.__mul__ = bytes_mul
        c.__rmul__ = bytes_mul
    INSTALLED.append('S8 bytes*int as repeated concatenation')


# ----------------------------------------------------------------------------------------- S11
def s11_memoryview_ctx():
    """CrossHair's memoryview stand-in lacks the context-manager protocol (`with memoryview(b) as v:` in the image parser)"""
    from crosshair.libimpl import builtinslib as bl
    mv = getattr(bl, 'SymbolicMemoryView', None)
    if mv is not None and not hasattr(mv, '__enter__'):
        mv.__enter__ = lambda self: self
        mv.__exit__ = lambda self, *a: None
        INSTALLED.append('S11 memoryview stand-in usable as a context manager')


# ----------------------------------------------------------------------------------------- S12
def s12_no_inner_enforcement():
    """CrossHair enforces the docstring contracts of *callees* too: a harness function called from a partition/twin wrapper (or
    from another harness function) whose post-condition fails would raise PostconditionFailed and the path would be IGNORED
    (reported as "unable to meet precondition") instead of being a counterexample.  Only the analysed function's own contract
    is wanted: switch callee enforcement off."""
    import crosshair.enforce as E
    if getattr(E.EnforcedConditions.trace_call, '_verif', False):
        return

    def trace_call(self, frame, fn, binding_target):
        return None
    trace_call._verif = True
    E.EnforcedConditions.trace_call = trace_call
    INSTALLED.append('S12 contracts of callees not enforced (only the analysed condition)')


# ----------------------------------------------------------------------------------------- S10
def s10_no_shortcircuit():
    import crosshair.core as core
    core.consider_shortcircuit = lambda *a, **k: None
    INSTALLED.append('S10 contracted callees never short-circuited')


def install(symmpi=False, hexmodel=True, lazyhex=False):
    import crosshair.core_and_libs  # noqa: registers CrossHair's own handlers FIRST; ours must come after
    s1_sdproperty()
    s2_metaclass_call()
    s3_mapadd()
    s4_bitops()
    if symmpi:
        s5_symmpi()
    if hexmodel:
        s6_hex(lazy=lazyhex)
    s7_bytes_eq()
    s8_bytes_mul()
    s10_no_shortcircuit()
    s11_memoryview_ctx()
    s12_no_inner_enforcement()


def selftest():
    out = {'S4': s4_selftest(), 'S6': s6_selftest()}
    try:
        out['S5'] = s5_selftest()
    except Exception as e:      # the MPI class of the tree under test no longer has the shape (or the behaviour) the symbolic twin is rebuilt from:
        out['S5'] = 'UNAVAILABLE: %s: %s' % (type(e).__name__, e)      # obligations that ask for it run on the real class instead (see vlib.main)
    return out


if __name__ == '__main__':
    print(selftest())
