"""Child process: analyse ONE condition with CrossHair (or replay one counterexample natively).

    python -m vlib.runone analyze <module> <fn> <cond_timeout> <path_timeout> <seed> [flags...]
    python -m vlib.runone replay  <module> <fn> <call-expression>

`analyze` prints a final line `RESULT <json>`; the parent (vlib.main) enforces an OS-level timeout.
flags:  twin            analyse the reachability twin (post-condition negated)
        pre=<expr>      extra precondition line (partitioning of the path tree); may repeat
        symmpi lazyhex nohex   shim selection
"""
import importlib
import inspect
import json
import os
import random
import re
import sys
import time
import warnings

VERIF = os.path.dirname(os.path.dirname(os.path.abspath(__file__)))
REPO = os.environ.get('VERIF_REPO', '/repo')
for p in (VERIF, REPO):
    if p not in sys.path:
        sys.path.insert(0, p)
warnings.simplefilter('ignore')


def variant_source(modname, fn, extra_pre, twin):
    """source text of a wrapper with extra preconditions and/or the negated post-condition"""
    doc = inspect.getdoc(fn) or ''
    pres = [l.strip() for l in doc.splitlines() if l.strip().startswith('pre:')]
    sig = inspect.signature(fn)
    params = ', '.join(sig.parameters)
    lines = ['import %s as _m' % modname, 'from %s import *' % modname, '',
             'def %s__v%s:' % (fn.__name__, str(sig)), '    """']
    for l in pres:
        lines.append('    ' + l)
    for e in extra_pre:
        lines.append('    pre: ' + e)
    lines.append('    post: _')
    lines.append('    """')
    if twin:
        lines.append('    return not _m.%s(%s)' % (fn.__name__, params))
    else:
        lines.append('    return _m.%s(%s)' % (fn.__name__, params))
    return '\n'.join(lines) + '\n'


def load_variant(modname, fn, extra_pre, twin):
    src = variant_source(modname, fn, extra_pre, twin)
    d = os.path.join(VERIF, '.work', 'variants')
    os.makedirs(d, exist_ok=True)
    import hashlib
    name = 'v_%s_%s_%s' % (modname.replace('.', '_'), fn.__name__, hashlib.sha1(src.encode()).hexdigest()[:10])
    path = os.path.join(d, name + '.py')
    tmp = path + '.%d' % os.getpid()
    with open(tmp, 'w') as f:
        f.write(src)
    os.replace(tmp, path)
    if d not in sys.path:
        sys.path.insert(0, d)
    mod = importlib.import_module(name)
    return getattr(mod, fn.__name__ + '__v')


CALL_RE = re.compile(r'when calling (.*)$', re.S)


def extract_call(message, fname):
    m = CALL_RE.search(message)
    if not m:
        return None
    s = m.group(1)
    # strip " (which returns ...)" and " with <patches>"
    i = s.rfind(' (which returns')
    if i >= 0:
        s = s[:i]
    return s.strip()


def analyze(argv):
    modname, fname, cond_to, path_to, seed = argv[0], argv[1], float(argv[2]), float(argv[3]), int(argv[4])
    flags = argv[5:]
    random.seed(seed)
    t0 = time.time()
    import z3
    stats = {'z3_checks': 0, 'z3_time': 0.0, 'paths': 0}
    _check = z3.Solver.check

    from crosshair.tracers import NoTracing
    _clock = time.perf_counter

    def check(self, *a):
        with NoTracing():                      # time.* is patched by CrossHair while tracing
            t = _clock()
            try:
                return _check(self, *a)
            finally:
                stats['z3_checks'] += 1
                stats['z3_time'] += _clock() - t
    z3.Solver.check = check

    from vlib import shims
    shims.install(symmpi=('symmpi' in flags and not os.environ.get('VERIF_NO_SYMMPI')), hexmodel='nohex' not in flags, lazyhex='lazyhex' in flags)
    import crosshair.statespace as SS
    _init = SS.StateSpace.__init__

    def init(self, *a, **k):
        with NoTracing():
            stats['paths'] += 1
        return _init(self, *a, **k)
    SS.StateSpace.__init__ = init

    from crosshair.core_and_libs import analyze_function, run_checkables, MessageType
    from crosshair.options import AnalysisOptionSet

    mod = importlib.import_module(modname)
    if hasattr(mod, 'ANALYSIS_SETUP'):
        mod.ANALYSIS_SETUP(flags)
    fn = getattr(mod, fname)
    extra = [f[4:] for f in flags if f.startswith('pre=')]
    twin = 'twin' in flags
    if extra or twin:
        target = load_variant(modname, fn, extra, twin)
        # (shim S12 makes sure the inner call's own docstring contract is not enforced)
    else:
        target = fn
    opts = AnalysisOptionSet(per_condition_timeout=cond_to, per_path_timeout=path_to, report_all=True,
                             max_uninteresting_iterations=sys.maxsize)
    msgs = list(run_checkables(analyze_function(target, opts)))
    out = {'module': modname, 'fn': fname, 'twin': twin, 'pre': extra, 'wall_s': round(time.time() - t0, 2),
           'stats': {k: (round(v, 3) if isinstance(v, float) else v) for k, v in stats.items()},
           'shims': list(shims.INSTALLED), 'messages': []}
    state = None
    for m in msgs:
        call = extract_call(m.message, fname)
        if call and (extra or twin):
            call = call.replace(fname + '__v(', fname + '(', 1)
        out['messages'].append({'state': m.state.name, 'message': m.message[:2000], 'call': call,
                                'traceback': (m.traceback or '')[-1500:] if m.state.name == 'EXEC_ERR' else ''})
        state = m.state.name
    if not msgs:
        state = 'NO_CONDITIONS'
    out['state'] = state
    print('RESULT ' + json.dumps(out))


def replay(argv):
    """native evaluation of a counterexample: no tracer, no shims"""
    modname, fname, call = argv[0], argv[1], argv[2]
    mod = importlib.import_module(modname)
    ns = dict(vars(mod))
    ns.setdefault('float', float)
    res = {'call': call}
    try:
        val = eval(call, ns)
        res['returned'] = repr(val)[:500]
        res['reproduces'] = not bool(val)
    except Exception as e:                              # noqa: native replay, plain exceptions only
        res['raised'] = '%s: %s' % (type(e).__name__, str(e)[:300])
        # a precondition failure in native replay would be a harness bug; a raise is a reproduced failure
        res['reproduces'] = True
    # the precondition must hold natively too
    fn = getattr(mod, fname)
    doc = inspect.getdoc(fn) or ''
    res['pre_ok'] = True
    try:
        m = re.match(r'^\s*%s\((.*)\)\s*$' % re.escape(fname), call, re.S)
        if m:
            bound = eval('(lambda *a, **k: (a, k))(%s)' % m.group(1), ns)
            ba = inspect.signature(fn).bind(*bound[0], **bound[1])
            for l in doc.splitlines():
                l = l.strip()
                if l.startswith('pre:'):
                    if not eval(l[4:].strip(), ns, dict(ba.arguments)):
                        res['pre_ok'] = False
    except Exception as e:                              # noqa
        res['pre_err'] = repr(e)[:200]
    print('RESULT ' + json.dumps(res))


def enginea(argv):
    """Engine A obligation: the harness function builds the SMT encoding from current source and solves it"""
    modname, fname, tier, seed = argv[0], argv[1], argv[2], int(argv[3])
    random.seed(seed)
    t0 = time.time()
    mod = importlib.import_module(modname)
    from vlib.astsmt import Untranslatable
    try:
        res = getattr(mod, fname)(tier)
    except Untranslatable as e:
        res = {'status': 'inconclusive', 'why': 'Untranslatable: %s' % e}
    res.setdefault('stats', {'paths': res.get('encodings', 1), 'z3_checks': res.get('queries', 0),
                             'z3_time': res.get('solver_s', 0.0)})
    res['wall_s'] = round(time.time() - t0, 2)
    res['shims'] = []
    print('RESULT ' + json.dumps(res, default=str))


if __name__ == '__main__':
    mode = sys.argv[1]
    if mode == 'enginea':
        enginea(sys.argv[2:])
    elif mode == 'analyze':
        analyze(sys.argv[2:])
    elif mode == 'replay':
        replay(sys.argv[2:])
    else:
        sys.exit(2)
