"""Parent driver: run every obligation of one property, classify, replay, write evidence.

    check <PROP> [--tier quick|thorough] [--only <obligation-substring>] [--jobs N] [--keep]
    check <PROP> --replay <replay-file>

Exit codes: 0 nothing violated in what was explored; 1 an unlisted violation reproduced
(`VIOLATION property=<id> replay=<path>`); 2 machinery failure.
"""
import argparse
import concurrent.futures as cf
import hashlib
import importlib
import inspect
import json
import os
import subprocess
import sys
import time
import traceback

VERIF = os.path.dirname(os.path.dirname(os.path.abspath(__file__)))
REPO = os.environ.get('VERIF_REPO', '/repo')
PY = os.path.join(VERIF, '.venv', 'bin', 'python')


# every analysis, native replay and sanity input runs in a process whose local zone is far from UTC: code that is correct does not
# depend on the process zone; code that mixes local-time and UTC conversions (mktime / timestamp() on naive values) shows up
PROCESS_TZ = os.environ.get('VERIF_TZ', 'XXX11')


def child_env():
    env = dict(os.environ)
    env['PYTHONPATH'] = VERIF + os.pathsep + REPO
    env['PYTHONHASHSEED'] = '0'
    env['PYTHONDONTWRITEBYTECODE'] = '1'
    env.setdefault('VERIF_REPO', REPO)
    env['TZ'] = PROCESS_TZ
    return env


def run_child(args, timeout):
    """run vlib.runone in its own process group under a hard timeout; returns (result-dict|None, tail, timed_out)"""
    t0 = time.time()
    p = subprocess.Popen([PY, '-m', 'vlib.runone'] + args, cwd=VERIF, env=child_env(), stdout=subprocess.PIPE,
                         stderr=subprocess.PIPE, text=True, start_new_session=True)
    try:
        out, err = p.communicate(timeout=timeout)
        timed_out = False
    except subprocess.TimeoutExpired:
        try:
            os.killpg(p.pid, 9)
        except ProcessLookupError:
            pass
        out, err = p.communicate()
        timed_out = True
    res = None
    for line in (out or '').splitlines():
        if line.startswith('RESULT '):
            try:
                res = json.loads(line[7:])
            except ValueError:
                pass
    return res, ((out or '')[-1500:] + '\n' + (err or '')[-3000:]), timed_out, time.time() - t0


class Job:
    def __init__(self, ob, kind, pre):
        self.ob, self.kind, self.pre = ob, kind, pre      # kind: 'main' | 'twin' | 'enginea'
        self.res = None
        self.tail = ''
        self.timed_out = False
        self.wall = 0.0

    @property
    def label(self):
        s = self.ob['id'] + ':' + self.ob['name']
        if self.pre:
            s += '[' + ' & '.join(self.pre) + ']'
        if self.kind == 'twin':
            s += '#twin'
        return s


def run_job(job, tier, seed):
    ob = job.ob
    if job.kind == 'enginea':
        args = ['enginea', ob['module'], ob['name'], tier, str(seed)]
        hard = ob['hard_timeout'][tier]
    else:
        ct = ob['cond_timeout'][tier]
        args = ['analyze', ob['module'], ob['name'], str(ct), str(ob['path_timeout']), str(seed)] + list(ob['flags'])
        args += ['pre=' + p for p in job.pre]
        if job.kind == 'twin':
            args.append('twin')
            ct = min(ct, 120)
            args[3] = str(ct)
        hard = ct * 1.5 + 90
    job.res, job.tail, job.timed_out, job.wall = run_child(args, hard)
    return job


def replay_native(ob, call):
    res, tail, to, _ = run_child(['replay', ob['module'], ob['name'], call], 300)
    return res, tail


def write_replay_file(prop, ob, call, rep):
    d = os.path.join(VERIF, 'replays', prop)
    os.makedirs(d, exist_ok=True)
    key = hashlib.sha1(call.encode()).hexdigest()[:8]
    path = os.path.join(d, '%s_%s_%s.py' % (ob['id'].replace('.', '_'), ob['name'], key))
    with open(path, 'w') as f:
        f.write('#!/verif/.venv/bin/python\n"""replay of a counterexample for %s obligation %s (%s)\n%s\n"""\n' % (
            prop, ob['id'], ob['name'], ob['desc']))
        f.write('import os, sys, time, warnings\nwarnings.simplefilter("ignore")\n')
        f.write('os.environ["TZ"] = %r; time.tzset()          # the checks run with this process zone\n' % PROCESS_TZ)
        f.write('sys.path[:0] = [%r, %r]\n' % (VERIF, REPO))
        f.write('from %s import *\n' % ob['module'])
        f.write('try:\n    r = %s\nexcept Exception as e:\n    print("raised", type(e).__name__, e); r = False\n' % call)
        f.write('print("property holds on this input:", bool(r))\nsys.exit(0 if r else 1)\n')
    return path


def load_known():
    p = os.path.join(VERIF, 'known_findings.json')
    if not os.path.exists(p):
        return {}
    with open(p) as f:
        data = json.load(f)
    return {e['id']: e for e in data.get('findings', [])}


def main(argv=None):
    ap = argparse.ArgumentParser()
    ap.add_argument('prop')
    ap.add_argument('--tier', default=os.environ.get('VERIF_TIER', 'quick'))
    ap.add_argument('--only', default=None)
    ap.add_argument('--jobs', type=int, default=int(os.environ.get('VERIF_JOBS', '16')))
    ap.add_argument('--replay', default=None)
    ap.add_argument('--no-evidence', action='store_true')
    ap.add_argument('--cap', type=float, default=None, help='development: cap every per-condition timeout')
    ap.add_argument('--list', action='store_true', help='development: print the job list and the worst-case budget, run nothing')
    ap.add_argument('--part', default=None, help='development: only partitions whose precondition text contains this')
    a = ap.parse_args(argv)
    prop = a.prop.upper()
    tier = 'thorough' if a.tier.startswith('t') else 'quick'
    seed = int(os.environ.get('VERIF_SEED', '0') or 0)
    t0 = time.time()
    os.environ['TZ'] = PROCESS_TZ
    time.tzset()

    if a.replay:
        r = subprocess.run([PY, a.replay], cwd=VERIF, env=child_env())
        return r.returncode

    for p in (VERIF, REPO):
        if p not in sys.path:
            sys.path.insert(0, p)
    import warnings
    warnings.simplefilter('ignore')
    try:
        from vlib import shims
        st = shims.selftest()
        if isinstance(st.get('S5'), str):
            print('WARNING shim S5 (symbolic MPI twin) cannot be rebuilt from this tree: %s - obligations flagged symmpi run on the real MPI class' % st['S5'])
            os.environ['VERIF_NO_SYMMPI'] = '1'
        hmod = importlib.import_module('harness.' + prop.lower())
        sanity_calls = list(getattr(hmod, 'SANITY', []))
    except Exception:
        traceback.print_exc()
        print('HARNESS-ERROR property=%s (import/sanity failed; no verdict)' % prop)
        return 2
    from vlib.h import collect
    obs = collect(hmod)
    rows_sanity = []
    if a.cap:
        for o in obs:
            for k in o['cond_timeout']:
                o['cond_timeout'][k] = min(o['cond_timeout'][k], a.cap)
    known = load_known()
    jobs = []
    for ob in obs:
        if a.only and a.only not in ob['id'] + ':' + ob['name']:
            continue
        if tier not in ob['tiers']:
            continue
        if ob['engine'] == 'A':
            jobs.append(Job(ob, 'enginea', []))
            continue
        parts = ob['partitions'][tier] or [[]]
        for pre in parts:
            if a.part and a.part not in ' & '.join(pre):
                continue
            jobs.append(Job(ob, 'main', list(pre)))
        if ob['twin'] and not a.part:
            jobs.append(Job(ob, 'twin', list(parts[0])))
    if not jobs:
        print('HARNESS-ERROR property=%s no obligations selected' % prop)
        return 2

    if a.list:
        tot = sum((j.ob['cond_timeout'][tier] if j.kind != 'enginea' else j.ob['hard_timeout'][tier]) for j in jobs)
        print('LIST property=%s tier=%s jobs=%d worst_case_cpu_s=%d worst_case_wall_s(16)=%d' % (prop, tier, len(jobs), tot, tot / 16))
        return 0
    # longest first
    jobs.sort(key=lambda j: -(j.ob['cond_timeout'][tier] if j.kind != 'enginea' else j.ob['hard_timeout'][tier]))
    with cf.ThreadPoolExecutor(max_workers=a.jobs) as ex:
        list(ex.map(lambda j: run_job(j, tier, seed), jobs))

    # ------------------------------------------------------------------ classification
    rows = []
    violations = []
    known_lines = []
    n_replays = 0
    # harness sanity inputs: concrete native runs of the harness functions on the repo's own vectors / boundaries.
    # They validate the harness; a failing one is a concrete, already-replayed counterexample.
    sanity = 0
    ns = dict(vars(hmod))
    for call in sanity_calls:
        try:
            okv = bool(eval(call, ns))
        except Exception as e:                      # noqa
            okv = False
        sanity += 1
        if not okv:
            fname = call.split('(')[0].strip()
            sob = next((o for o in obs if o['name'] == fname), None) or {
                'id': 'sanity', 'name': fname, 'module': hmod.__name__, 'desc': 'harness sanity input', 'known': None}
            row = {'obligation': 'sanity:' + call, 'desc': 'concrete harness input', 'bounds': 'single input', 'engine': 'native',
                   'wall_s': 0.0}
            handle_failure(prop, sob, call, {'reproduces': True}, known, violations, known_lines, row)
            rows_sanity.append(row)
    for j in jobs:
        ob = j.ob
        row = {'obligation': j.label, 'desc': ob['desc'], 'bounds': ob['bounds'], 'engine': ob['engine'],
               'wall_s': round(j.wall, 1)}
        if j.res is None:
            row['status'] = 'inconclusive'
            row['why'] = 'timeout (OS)' if j.timed_out else 'child failed: ' + j.tail[-400:]
            rows.append(row)
            continue
        r = j.res
        row['paths'] = r.get('stats', {}).get('paths', 0)
        row['queries'] = r.get('stats', {}).get('z3_checks', 0)
        row['solver_s'] = r.get('stats', {}).get('z3_time', 0.0)
        if j.kind == 'enginea':
            row.update({k: r[k] for k in ('status', 'why', 'functions', 'validated', 'solvers') if k in r})
            if r.get('status') == 'refuted':
                call = r.get('call')
                row['counterexample'] = call
                rep, _ = (replay_native(ob, call) if call else (None, ''))
                n_replays += 1
                if rep and rep.get('reproduces') and rep.get('pre_ok', True):
                    handle_failure(prop, ob, call, rep, known, violations, known_lines, row)
                else:
                    row['status'] = 'inconclusive'
                    row['why'] = 'solver model does not reproduce on the real function (encoding error)'
            rows.append(row)
            continue
        state = r.get('state')
        # a counterexample that does not replay natively (tool-model error, or a run disturbed by non-determinism such as id()-keyed
        # grouping or the clock) is retried once with another seed before the obligation is given up as inconclusive
        if j.kind == 'main' and ob.get('expect') != 'refute' and state in ('POST_FAIL', 'EXEC_ERR') and not getattr(j, 'retried', False):
            msg0 = [m for m in r['messages'] if m['state'] == state][-1]
            rep0, _ = (replay_native(ob, msg0.get('call')) if msg0.get('call') else (None, ''))
            if not (rep0 and rep0.get('reproduces') and rep0.get('pre_ok', True)):
                j.retried = True
                run_job(j, tier, seed + 7)
                if j.res is not None:
                    r = j.res
                    state = r.get('state')
                    row['retried'] = True
        if j.kind == 'twin':
            row['status'] = 'twin-reached' if state in ('POST_FAIL',) else 'twin-NOT-reached(%s)' % state
            rows.append(row)
            continue
        if ob.get('expect') == 'refute':
            # reachability witness: the success path of a harness must be reachable, i.e. this condition must be refuted
            if state == 'POST_FAIL':
                msg = [m for m in r['messages'] if m['state'] == state][-1]
                rep, tail = (replay_native(ob, msg.get('call')) if msg.get('call') else (None, ''))
                n_replays += 1
                if rep and rep.get('reproduces'):
                    row['status'] = 'decided'
                    row['witness'] = msg.get('call')
                else:
                    row['status'] = 'inconclusive'
                    row['why'] = 'witness does not replay natively'
            else:
                row['status'] = 'inconclusive'
                row['why'] = 'reachability witness not refuted (%s): the harnesses it guards may be vacuous' % state
            rows.append(row)
            continue
        if state == 'CONFIRMED':
            row['status'] = 'decided'
        elif state in ('POST_FAIL', 'EXEC_ERR'):
            msg = [m for m in r['messages'] if m['state'] == state][-1]
            call = msg.get('call')
            row['counterexample'] = call
            row['message'] = msg['message'][:300]
            rep, tail = (replay_native(ob, call) if call else (None, ''))
            n_replays += 1
            if rep and rep.get('reproduces') and rep.get('pre_ok', True):
                row['replay'] = rep
                handle_failure(prop, ob, call, rep, known, violations, known_lines, row)
            else:
                row['status'] = 'inconclusive'
                row['why'] = 'counterexample does not reproduce natively (tool-model error): %r' % (rep or tail[-300:],)
        else:
            row['status'] = 'inconclusive'
            row['why'] = '%s: %s' % (state, (r['messages'][-1]['message'][:200] if r['messages'] else ''))
        rows.append(row)

    # a main obligation whose twin was not reached is vacuous -> not counted as decided
    twin_bad = {j.ob['id'] + ':' + j.ob['name'] for j, row in zip(jobs, rows)
                if j.kind == 'twin' and not row['status'].startswith('twin-reached')}
    for j, row in zip(jobs, rows):
        if j.kind == 'main' and row['status'] == 'decided' and (j.ob['id'] + ':' + j.ob['name']) in twin_bad:
            row['status'] = 'inconclusive'
            row['why'] = 'reachability twin not refuted: harness may be vacuous'

    main_rows = [row for j, row in zip(jobs, rows) if j.kind != 'twin'] + rows_sanity
    decided = sum(1 for r in main_rows if r['status'] in ('decided', 'known-finding'))
    inconcl = [r for r in main_rows if r['status'] == 'inconclusive']
    for l in known_lines:
        print(l)
    for r in main_rows:
        print('%-14s %7.1fs paths=%-6s q=%-7s %s %s' % (r['status'], r['wall_s'], r.get('paths', '-'), r.get('queries', '-'),
                                                          r['obligation'], ('  <- ' + str(r.get('why', ''))[:160]) if r['status'] == 'inconclusive' else ''))
    for j, row in zip(jobs, rows):
        if j.kind == 'twin' and not row['status'].startswith('twin-reached'):
            print('WARNING twin not reached: %s (%s) %s' % (row['obligation'], row['status'], row.get('why', '')))
    for v in violations:
        print('VIOLATION property=%s replay=%s' % (prop, v['replay_file']))
        print('  obligation %s: %s' % (v['obligation'], v['call']))

    if not a.no_evidence:
        from vlib.evidence import write_evidence
        write_evidence(prop, tier, seed, hmod, jobs, rows, main_rows, decided, inconcl, violations, known_lines,
                       st, sanity, n_replays, time.time() - t0)
    print('SUMMARY property=%s tier=%s obligations=%d decided=%d inconclusive=%d violations=%d known=%d wall=%.0fs' % (
        prop, tier, len(main_rows), decided, len(inconcl), len(violations), len(known_lines), time.time() - t0))
    return 1 if violations else 0


def handle_failure(prop, ob, call, rep, known, violations, known_lines, row):
    kf = ob.get('known')
    ent = known.get(kf) if kf else None
    if ent is not None and ent.get('status') == 'open' and ent.get('property') == prop:
        row['status'] = 'known-finding'
        row['known_id'] = kf
        known_lines.append('KNOWN-FINDING: property=%s %s [%s] witness %s' % (prop, ent['what'], kf, call))
        return
    path = write_replay_file(prop, ob, call, rep)
    row['status'] = 'VIOLATION'
    row['replay_file'] = path
    violations.append({'obligation': ob['id'] + ':' + ob['name'], 'call': call, 'replay_file': path})


if __name__ == '__main__':
    sys.exit(main())
