#!/bin/sh
# Build the overlay interpreter used by every check: /venv's packages (PGPy's own dependencies) plus
# crosshair-tool and z3-solver from the offline wheelhouse.  Idempotent; offline.
set -e
V=$(cd "$(dirname "$0")" && pwd)/.venv
if [ -x "$V/bin/python" ] && "$V/bin/python" -c "import crosshair, z3, cryptography" 2>/dev/null; then
    exit 0
fi
rm -rf "$V"
/venv/bin/python -m venv "$V"
SP=$("$V/bin/python" -c "import sysconfig; print(sysconfig.get_paths()['purelib'])")
echo "import site; site.addsitedir('/venv/lib/python3.12/site-packages')" > "$SP/_overlay.pth"
PIP_NO_INDEX=1 "$V/bin/pip" install -q --no-index --find-links /opt/veriftools/wheels crosshair-tool z3-solver
"$V/bin/python" -c "import crosshair, z3, cryptography; print('overlay ok', z3.get_version_string())"
