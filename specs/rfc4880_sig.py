"""Reference model of RFC 4880 section 5.2.4 "Computing Signatures" (v4), written from the RFC text.

Inputs are plain octet strings; nothing here imports PGPy.  Lengths are written with // and % only so that the
model can be evaluated on symbolic values.
"""

DOC_TYPES = (0x00, 0x01)
NO_SUBJECT_TYPES = (0x02, 0x40)
CERT_TYPES = (0x10, 0x11, 0x12, 0x13, 0x30)
KEY_TYPES = (0x1F, 0x20)                    # direct-key, key revocation: the (primary) key only
BINDING_TYPES = (0x18, 0x19, 0x28)          # subkey binding, primary-key binding, subkey revocation: primary then subkey


def be(n, width):
    out = []
    for i in range(width):
        out.append((n // (256 ** (width - 1 - i))) % 256)
    return bytes(out)


def canon_text(doc):
    """5.2.1 / 5.2.4: line endings converted to <CR><LF> (an LF not preceded by CR gets one)"""
    out = bytearray()
    prev = -1
    for b in doc:
        if b == 10 and prev != 13:
            out.append(13)
        out.append(b)
        prev = b
    return bytes(out)


def key_block(body):
    """0x99, two-octet length, public-key packet body"""
    return b'\x99' + be(len(body), 2) + body


def trailer(sigtype, pkalg, halg, hashed_area):
    """version 4, type, algorithms, hashed subpacket area (with its two-octet count), then 04 FF and the four-octet
    length of everything from the version octet through the hashed area"""
    hctx = bytes([4, sigtype, pkalg, halg]) + hashed_area
    return hctx + b'\x04\xff' + be(len(hctx), 4)


def hash_input(sigtype, pkalg, halg, hashed_area, doc=None, primary=None, subkey=None, uid=None, attr=None):
    """the octets that are hashed for a v4 signature of `sigtype`"""
    data = b''
    if sigtype == 0x00:
        data += doc
    elif sigtype == 0x01:
        data += canon_text(doc)
    elif sigtype in CERT_TYPES:
        data += key_block(primary)
        if uid is not None:
            data += b'\xb4' + be(len(uid), 4) + uid
        else:
            data += b'\xd1' + be(len(attr), 4) + attr
    elif sigtype in KEY_TYPES:
        data += key_block(primary)
    elif sigtype in BINDING_TYPES:
        data += key_block(primary) + key_block(subkey)
    elif sigtype in NO_SUBJECT_TYPES:
        pass
    else:
        raise ValueError('type not modelled: 0x%02x' % sigtype)
    return data + trailer(sigtype, pkalg, halg, hashed_area)


# ---------------------------------------------------------------------------- 5.2.3.x subpacket encodings
def sp_len(n):
    if n < 192:
        return bytes([n])
    if n < 8384:
        m = n - 192
        return bytes([m // 256 + 192, m % 256])
    return b'\xff' + be(n, 4)


def subpacket(typeid, body, critical=False):
    return sp_len(len(body) + 1) + bytes([typeid + (128 if critical else 0)]) + body


def sp_creation_time(t):
    return subpacket(2, be(t, 4))


def sp_sig_expiry(seconds):
    return subpacket(3, be(seconds, 4))


def sp_exportable(flag):
    return subpacket(4, bytes([1 if flag else 0]))


def sp_trust(level, amount):
    return subpacket(5, bytes([level, amount]))


def sp_regex(text):
    return subpacket(6, text)


def sp_revocable(flag):
    return subpacket(7, bytes([1 if flag else 0]))


def sp_key_expiry(seconds):
    return subpacket(9, be(seconds, 4))


def sp_pref_sym(ids):
    return subpacket(11, bytes(ids))


def sp_revocation_key(klass, alg, fpr20):
    return subpacket(12, bytes([klass, alg]) + fpr20)


def sp_issuer(keyid8):
    return subpacket(16, keyid8)


def sp_notation(flags0, name, value):
    return subpacket(20, bytes([flags0, 0, 0, 0]) + be(len(name), 2) + be(len(value), 2) + name + value)


def sp_pref_hash(ids):
    return subpacket(21, bytes(ids))


def sp_pref_comp(ids):
    return subpacket(22, bytes(ids))


def sp_keyserver_prefs(flags):
    return subpacket(23, bytes([flags]))


def sp_pref_keyserver(uri):
    return subpacket(24, uri)


def sp_primary_uid(flag):
    return subpacket(25, bytes([1 if flag else 0]))


def sp_policy(uri):
    return subpacket(26, uri)


def sp_key_flags(flags):
    return subpacket(27, bytes([flags]))


def sp_signers_uid(text):
    return subpacket(28, text)


def sp_reason(code, text):
    return subpacket(29, bytes([code]) + text)


def sp_features(flags):
    return subpacket(30, bytes([flags]))


def sp_issuer_fpr(fpr20):
    return subpacket(33, b'\x04' + fpr20)


def sp_intended_recipient(fpr20):
    return subpacket(35, b'\x04' + fpr20)


def area(subpackets):
    body = b''.join(subpackets)
    return be(len(body), 2) + body
