#!/bin/sh
# usage: tools/seedeval.sh <PROP> <name> <patch.diff> <demo.py> ["needs" text]
# 1. confirm the seeded change in a scratch worktree (applies, suite baseline intact, demo fails with / passes without)
# 2. store it under /verif/seeded/<name>/   3. run the quick check of PROP on /repo with the patch applied, then undo
PROP=$1; NAME=$2; PATCH=$3; DEMO=$4; NEEDS=${5:-}
WT=/tmp/wt_eval_$$
set -e
git -C /repo worktree add --detach "$WT" HEAD -q
cleanup() { git -C /repo worktree remove --force "$WT" 2>/dev/null || true; }
trap cleanup EXIT
cd "$WT"
git apply "$PATCH"
if [ -n "$FAST" ] && [ -f /verif/seeded/$NAME/meta.json ]; then BASE=ok; echo "(FAST: suite baseline was confirmed at first evaluation)" > /tmp/seedeval_base_$$.txt; else python3 /verif/tools/baseline_check.py "$WT" > /tmp/seedeval_base_$$.txt 2>&1 && BASE=ok || BASE=BROKEN; fi
D1=0; (cd "$WT" && PYTHONPATH="$WT" timeout 600 /venv/bin/python "$DEMO" > /tmp/seedeval_demo1_$$.txt 2>&1) || D1=$?
git checkout -- . ; git clean -fdq
D0=0; (cd "$WT" && PYTHONPATH="$WT" timeout 600 /venv/bin/python "$DEMO" > /tmp/seedeval_demo0_$$.txt 2>&1) || D0=$?
echo "seed $NAME: suite=$BASE demo_with_patch_exit=$D1 demo_without_exit=$D0"
if [ "$BASE" != ok ] || [ "$D1" = 0 ] || [ "$D0" != 0 ]; then echo "seed $NAME: NOT CONFIRMED - not kept"; tail -3 /tmp/seedeval_base_$$.txt; exit 3; fi
mkdir -p /verif/seeded/$NAME
cp "$PATCH" /verif/seeded/$NAME/patch.diff; cp "$DEMO" /verif/seeded/$NAME/demo.py
cd /verif
git -C /repo apply /verif/seeded/$NAME/patch.diff
OUT=/tmp/seedeval_check_$$.txt
RC=0; ./check "$PROP" --tier quick --no-evidence > "$OUT" 2>&1 || RC=$?
git -C /repo checkout -- .
NV=$(grep -c "^VIOLATION property=" "$OUT" || true)
NSOLVER=$(grep -E "^VIOLATION +[0-9.]+s " "$OUT" | grep -vc "sanity:" || true)
NSANITY=$(grep -E "^VIOLATION +[0-9.]+s " "$OUT" | grep -c "sanity:" || true)
SOLVERFIRST=$(grep -E "^VIOLATION +[0-9.]+s " "$OUT" | grep -v "sanity:" | head -1 | sed -E 's/^VIOLATION +[0-9.]+s +paths=[^ ]+ +q=[^ ]+ +//' | sed -E 's/ +$//' | cut -c1-120)
FIRST=$(grep -m1 -A1 "^VIOLATION property=" "$OUT" | tail -1 | cut -c1-200)
echo "seed $NAME: check exit=$RC violations=$NV (solver-found obligations: $NSOLVER, concrete sanity inputs: $NSANITY) first: $FIRST"
python3 - "$PROP" "$NAME" "$RC" "$NV" "$FIRST" "$NEEDS" "$NSOLVER" "$NSANITY" "$SOLVERFIRST" <<'PY'
import json, sys, subprocess
prop, name, rc, nv, first, needs, nsolver, nsanity, solverfirst = sys.argv[1:10]
meta = {'property': prop, 'name': name, 'needs_to_manifest': needs,
        'confirmed': {'applies': True, 'suite_stable_pass_intact': True, 'demo_fails_with_patch': True, 'demo_passes_without': True,
                      'how': 'tools/seedeval.sh: scratch worktree of /repo HEAD, tools/baseline_check.py, demo run with and without the patch'},
        'check_quick': {'exit': int(rc), 'violation_lines': int(nv), 'first': first, 'detected': int(rc) == 1 and int(nv) > 0,
                        'obligations_with_solver_counterexample': int(nsolver or 0), 'first_such_obligation': solverfirst,
                        'concrete_sanity_inputs_failing': int(nsanity or 0)},
        'repo_head': subprocess.check_output(['git', '-C', '/repo', 'rev-parse', '--short', 'HEAD'], text=True).strip()}
json.dump(meta, open('/verif/seeded/%s/meta.json' % name, 'w'), indent=1)
PY
grep -E "^SUMMARY" "$OUT" | tail -1
