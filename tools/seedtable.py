#!/usr/bin/env python3
"""print a markdown table of /verif/seeded/*/meta.json (for DESIGN.md)"""
import json, glob, os
rows = []
for f in sorted(glob.glob('/verif/seeded/*/meta.json')):
    m = json.load(open(f))
    c = m['check_quick']
    how = 'not detected'
    if c['detected']:
        how = ('solver counterexample in %s' % c.get('first_such_obligation', '?')) if c.get('obligations_with_solver_counterexample') else 'concrete harness input only'
        if 'obligations_with_solver_counterexample' not in c:
            how = 'detected (' + (c.get('first', '').strip()[:70]) + ')'
    rows.append('| %s | %s | %s | %s |' % (m['name'], m['property'], m.get('needs_to_manifest', '')[:110], how))
print('| seeded change | property | needs to manifest | quick check on the changed tree |\n|---|---|---|---|')
print('\n'.join(rows))
