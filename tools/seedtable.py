#!/usr/bin/env python3
"""print a markdown table of /verif/seeded/*/meta.json (for DESIGN.md)"""
import json, glob, os
rows = []
for f in sorted(glob.glob('/verif/seeded/*/meta.json')):
    m = json.load(open(f))
    c = m['check_quick']
    how = 'not detected'
    if c['detected']:
        fo = c.get('first_such_obligation', '') or ''
        if ':' not in fo:                      # (older meta files kept only the last token of the row)
            fo = ''
        nso = c.get('obligations_with_solver_counterexample')
        how = ('solver counterexample in %d obligation(s)%s' % (nso, (', e.g. ' + fo) if fo else '')) if nso else 'concrete harness input only'
        if 'obligations_with_solver_counterexample' not in c:
            how = 'detected (' + (c.get('first', '').strip()[:70]) + ')'
    rows.append('| %s | %s | %s | %s |' % (m['name'], m['property'], m.get('needs_to_manifest', '')[:110], how))
table = '| seeded change | property | needs to manifest | quick check on the changed tree |\n|---|---|---|---|\n' + '\n'.join(rows)
import sys
if '--into-design' in sys.argv:
    p = '/verif/DESIGN.md'
    s = open(p).read()
    a = s.index('<!-- SEEDTABLE:BEGIN')
    a = s.index('\n', a) + 1
    b = s.index('<!-- SEEDTABLE:END -->')
    open(p, 'w').write(s[:a] + table + '\n' + s[b:])
    print('DESIGN.md updated: %d seeds, %d detected' % (len(rows), sum(1 for r in rows if 'not detected' not in r)))
else:
    print(table)
