"""What MANIFEST.json claims, per property."""
HOOK_COMMITS = []
NB = 'not yet built in this session (design in DESIGN.md section 3); will be claimed once its check decides on the unchanged tree'
CLAIMS = {
    'C09': {
        'technique': 'bounded symbolic execution of the real codec functions (CrossHair+z3), full-width integer domains; SMT translation of leaf kernels',
        'enginea': True,
        'text': 'Every new-format length in [0,2^32), every 5-octet non-partial length field, every old-format (tag, length-type, length) triple, '
                'every subpacket header (type x critical x length), every MPI below 2^32 (2^40 thorough), every foreign MPI of up to 40 bits and all 256 S2K '
                'coded counts are decided symbolically on the real Header/MPI/String2Key code: the path tree is exhausted and every path is unsat, so '
                'within those domains there is no value on which encode/decode disagree with RFC 4880. This is bounded model checking, not proof.',
        'note': 'Trusted: CrossHair models of int/bytes, shims S1-S10, the RFC formulas written in harness/c09.py. Not decided: 4-octet time <-> datetime (C calls); '
                'partial lengths beyond 2 chunks of <= 8 octets. Two genuine defects are recorded in known_findings.json (MPI(0), old-format width growth).'},
}
CLAIMS['C17'] = {
    'technique': 'SMT translation of the disqualification predicate from source (all 2^11 x 2^11 issue/advisory pairs, 3 solvers) + bounded symbolic execution of PGPKey.verify and SignatureVerification',
    'enginea': True,
    'text': 'O17.1 translates causes_signature_verify_to_fail from its current source to SMT and proves, for every issue value and every advisory set, '
            'that a disqualifying flag implies failure and failure is monotone under added advisory flags (unsat on z3 5.1, z3 4.8.12, cvc5). O17.2 runs the real '
            'PGPKey.verify with the key-issue checks and the signature primitive replaced by arbitrary values and decides the verdict for every single issue x advisory x '
            'crypto answer. O17.3 decides list coherence for 1..3 examined signatures over a 10-value issue basis. Bounded model checking.',
    'note': 'Trusted: stubs of check_management/check_primitives/EdDSAPub.verify (arbitrary values), CrossHair, the translator (validated on all 2048 values against the real property each run). '
            'Revoked is treated as advisory, as the library does. One genuine defect was repaired (fix: 63ecc59).'}
CLAIMS['C05'] = {
    'technique': 'bounded symbolic execution of the real signature-packet parser and hashdata (CrossHair+z3) over symbolic subpacket octets',
    'text': 'A received v4 signature packet is assembled from symbolic octets (type id, critical bit, length form 1/2/5, body octets, header octets), parsed by the real '
            'Packet() dispatch and every registered subpacket handler, and the octets PGPSignature.hashdata feeds to the hash are compared with the received region; '
            'one obligation per handler family, each with exhausted path tree (all paths unsat) within the per-family bounds listed in the evidence; plus order of several '
            'subpackets, the four header octets, and a symbolic single-bit flip of the region. Bounded model checking.',
    'note': 'Trusted: CrossHair, shims, the packet assembler in harness/c05.py. Bounds: bodies of a few symbolic octets (time octets from {00,7F,80,FF}; one fingerprint octet from 16 values), '
            'well-formed fixed-size subpackets only, v4 only. Three genuine defects were repaired (fix: 7eafd51, e71c98b, 37a3e74).'}
CLAIMS['C12'] = {
    'technique': 'SMT translation of the count/copies/remainder arithmetic sliced from derive_key (unbounded length, 3 solvers) + bounded symbolic execution of derive_key with a recording hash',
    'enginea': True,
    'text': 'O12.1 slices the statements computing count, hcount and hleft out of the current derive_key source, translates them and the coded-count getter to SMT and proves for every '
            'passphrase length (unbounded integer) and all 256 coded counts that the stream is max(decoded count, L) octets made of whole copies plus a proper remainder, with no division by zero. '
            'O12.3a/b execute the real derive_key symbolically with hashlib replaced by a recorder and decide, for symbolic salt and passphrase octets, that context i is fed i zero octets followed by the RFC stream '
            '(simple, salted, and iterated with 10..64-octet units and counts 1024..2176) and that the key is the digests in order, truncated. Bounded model checking.',
    'note': 'Trusted: the recording hash (digest = function of length and 12 edge octets; inputs are compared directly as well), CrossHair, shim S8 (bytes*int as flat repetition), the RFC model spec_streams(). '
            'Not decided: the hash functions; content for passphrases longer than the stated bounds (arithmetic covers every length). One genuine defect repaired (fix: 73fc9f5).'}
CLAIMS['C10'] = {
    'technique': 'SMT translation of the CRC-24 loop body (inductive step over all 2^32 state/octet pairs, bit-vectors, 3 solvers) and of the wrap expression (unbounded length); bounded symbolic execution for CRC line and labels',
    'enginea': True,
    'text': 'O10.1: the per-octet loop body, the initial value and the final mask are cut out of the current crc24 source, translated to 32-bit bit-vector terms with no-overflow side obligations, '
            'and shown equal to an independently formulated RFC 4880 6.1 LFSR step for every 24-bit state and octet (unsat); with the base case this gives the CRC for payloads of every length by induction. '
            'O10.3: the slice bounds and range step of the wrap expression in __str__ are translated and shown to tile a payload of any length into lines of 1..76 characters. '
            'O10.2 (three-octet CRC line over all 2^24 values) and O10.4 (label emitted per object kind; every foreign label rejected by parse) are decided on the real code with CrossHair. '
            'O10.5 runs the real armor regular expression and base64 on concrete payloads whose length, input type, line ending, surrounding text and corruption position are chosen by symbolic indices (780 combinations, exhausted).',
    'note': 'NOT decided on symbolic text (regular expressions on symbolic text are outside this tool, probe P14): armored text -> object round trip, CRLF / surrounding text, armor header lines, the CRC-mismatch warning are covered by O10.5 on concrete payloads only (solver-enumerated choices, native regex); base64 is C code. '
            'The solver-decided claim is the checksum, the line geometry and the label discipline.'}
CLAIMS['C19'] = {
    'technique': 'bounded symbolic execution of the real PGPKeyring index code over symbolic load/unload histories and creation orders (CrossHair+z3)',
    'text': 'The real PGPKeyring (alias maps, re-sort on unload, lookup, membership, fingerprints, len) is executed on histories whose operations and key creation times are symbolic: '
            'every 3-step (quick) / 4-step (thorough) history over three keys in three sharing universes (shared name / e-mail / comment, subkeys, public+private halves), and every 5-step '
            'history over two name-sharing keys. After each history the index must report exactly the loaded fingerprints, and every fingerprint (also spaced), key id, short id, name, comment and e-mail '
            'must select a loaded key carrying it, identifiers of unloaded keys nothing. Path trees are exhausted per partition; bounded model checking.',
    'note': 'Trusted: the duck-typed PGPKey stand-ins (fingerprint/created/is_public/userids/subkeys as attributes), CrossHair. Outside: loading from blobs/files (key parsing), selection by message/signature, longer histories. '
            'One genuine defect repaired (fix: 0ed67fc).'}
CLAIMS['C02'] = {
    'technique': 'differential bounded symbolic execution: real hashdata/_sign/option code vs an RFC 4880 5.2.4 / 5.2.3.x reference model, symbolic subjects and option values (CrossHair+z3)',
    'text': 'The octets PGPy hashes and hands to the signing primitive are compared with a reference model written from RFC 4880 (specs/rfc4880_sig.py) for every signature type PGPy emits: '
            'documents (binary/text), stand-alone/timestamp, certifications and their revocations over user ids (arbitrary UTF-8) and user attributes, direct-key, key/subkey revocation, '
            'subkey and primary-key binding, with symbolic subject and key-body octets; and for every option of sign/certify/revoke/revoker/bind (expiry, revocable, notation, policy, '
            'key flags, preference lists, key expiry, key-server flags/URI, primary, exportable, trust, regex, reason/comment, designated revoker, issuer fingerprint on/off) the hashed area is compared with the RFC encoding. '
            'Left-16 field and signature-integer encoding are decided too. Each obligation exhausts its path tree within the stated bounds.',
    'note': 'The independent implementation is a reference model, not GnuPG (absent). Trusted: that model, the signature oracle and recording-hash stubs, CrossHair. Bounds: subjects and option strings of 0..2/3 symbolic '
            'characters or octets, time-valued options at 5 boundary values, EdDSA integers at 256 boundary combinations. One genuine defect repaired (fix: e19eea5).'}
CLAIMS['C01'] = {
    'technique': 'two-copy bounded symbolic execution of PGPKey.verify/hashdata with the signature primitive replaced by its ideal functionality (CrossHair+z3)',
    'text': 'For each subject kind (documents binary/text, messages carrying signatures, user ids, user attributes, primary keys, subkeys) a signed tuple and a presented tuple with symbolic octets, '
            'types, hash algorithm, a hashed subpacket value and signature integers are run through the real PGPKey.verify; the primitive answers yes exactly for the octets that were signed. '
            'Every path on which verify returns a truthy result is shown to have equal tuples (text: equal after canonicalisation); uid/attribute confusion, wrong verifying key and subkey delegation are separate obligations; '
            'an injectivity lemma on the reference model closes the kinds not paired directly. Reachability witnesses (must be refuted) show the accepting path is reached. Path trees exhausted within the bounds.',
    'note': 'Trusted: the ideal-signature stub (existential unforgeability as exactness), stand-in keys with symbolic packet bodies, CrossHair. Not covered: the primitives; RSA/DSA/ECDSA verify wrappers '
            '(exercised through EdDSA only); time-valued subpackets concrete; payloads of 0..3 symbolic octets.'}
CLAIMS['C04'] = {
    'technique': 'accept-predicate equivalence under an adversarial (ideal) cipher: bounded symbolic execution of the real decrypt paths with the cipher output as a symbolic octet string (CrossHair+z3)',
    'text': 'The cipher is replaced by its ideal functionality - under the right key it returns the plaintext, otherwise an arbitrary symbolic octet string - and SHA-1 by a stand-in that is collision-free on the lengths used. '
            'O4.1: IntegrityProtectedSKEDataV1.decrypt returns iff the RFC 4880 5.13 predicate holds for the decrypted octets and then returns exactly the payload, else raises PGPDecryptionError (block sizes 8 and 16, every octet symbolic). '
            'O4.2: the public-key session-key block is accepted iff cipher id known and checksum right. O4.4: PGPMessage.decrypt with a wrong passphrase raises whatever the wrong key decrypts to. '
            'O4.5: replacing any single octet of the protected string (symbolic position and value) makes decryption raise. Reachability witnesses show the accepting paths are reached. Path trees exhausted within bounds.',
    'note': 'Assumes the real ciphers behave like the ideal one and SHA-1 like a collision-free function (that is cryptography, not PGPy). Not covered: ECDH unwrap (C code), bodies beyond a few octets. '
            'Observed, not a violation of the property as stated: PGPy has no minimum-length check on the decrypted string and none on the session-key block length.'}
CLAIMS['C20'] = {
    'technique': 'bounded symbolic execution of the real message composition / export / import code against an independent packet splitter and the RFC 4880 11.3 grammar (CrossHair+z3)',
    'text': 'Messages are built through the real PGPMessage API with 0..3 fabricated signatures whose creation times (incl. ties), hash algorithms and issuers are chosen by symbolic indices and whose content octets are symbolic; '
            'the export is cut into packets by an independent splitter and checked against the grammar (n one-pass packets in reverse order of the n signatures, each naming type, hash, algorithm and issuer, only the last flagged; one literal). '
            'Metadata round trip (content, format, file name incl. _CONSOLE, time, compression id, signatures), the compression wrapper (identity compressor stand-in), old-format and partial-length foreign encodings, and the encrypted-message grammar are separate obligations. '
            'Path trees exhausted within bounds.',
    'note': 'Trusted: the splitter and grammar in harness/c20.py, fabricated signatures, identity compressor, cipher/S2K stand-ins. Not covered: zlib/bz2 content round trip (C), bodies beyond a few octets, times beyond 5 boundary values, charset transcoding. '
            'One genuine defect repaired (fix: 7a680e2, one-pass flag octets).'}
CLAIMS['C11'] = {
    'technique': 'bounded symbolic execution of the text-signature hashing and cleartext signing code against an RFC 4880 7.1 reference (CrossHair+z3)',
    'text': 'Decided: the octets hashed for a text (0x01) signature equal the RFC 4880 7.1 canonical form for every text of 0..4 octets over the full byte alphabet (LF, CRLF, lone CR, non-ASCII) outside the region of one recorded finding; '
            'signing a cleartext message produces a 0x01 signature over exactly the message text, and the Hash: header lists exactly the hash algorithms of the signatures carried (1..2 signers). '
            'O11.3: written-out-and-read-back round trip (dash escaping applied and removed once, same text, signature verifies) for every text of 0..3 (quick) / 4 (thorough) characters over a 7-letter adversarial alphabet, each path a concrete text.',
    'note': 'Regular expressions on SYMBOLIC text are outside this tool (probe P14): dash-escaping, its removal and the cleartext branch of the armor regular expression are exercised only on the concrete texts O11.3 enumerates (alphabet a, -, space, LF, CR, TAB, F). '
            'Open known finding KF-C11-trailing-blanks (trailing SP/HT are hashed); its region is excluded from O11.1/O11.3 and witnessed by O11.1k.'}
CLAIMS['C08'] = {
    'technique': 'bounded symbolic execution of the real Packet() dispatch and every packet class codec on symbolic foreign packets, fixed-point contract checked per path (CrossHair+z3)',
    'text': 'For each packet class (user id, literal, marker, trust, MDC, encrypted data tag 9 and 18, symmetric and public-key session keys, one-pass, signature, RSA / DSA / ElGamal / ECDSA / EdDSA / ECDH public keys and subkeys, '
            'unprotected and protected secret keys with every S2K form incl. GNU dummy, user attribute, unknown tags and unknown versions) a foreign packet is assembled from symbolic octets under new- and old-format headers of every length-of-length, followed by trailing octets; '
            'if PGPy accepts it, it must consume exactly its octets, re-serialise to a packet whose header length equals its body length, accept that again as the same class, and be a fixed point. Path trees exhausted within the per-class bounds.',
    'note': 'Bounds: a few symbolic octets per field, integers below 2^32, EC point octets from boundary sets, fixed times, no compressed packets (C code), v4 only. "Same field values" is checked as same class + identical re-serialisation. '
            'Four genuine defects repaired (secret-key usage 255 aliasing, unhashed area length mismatch, stale header length after normalisation, literal file-name codec).'}
CLAIMS['C03'] = {
    'technique': 'bounded symbolic execution of the real encrypt/decrypt framing code with ideal-functionality stand-ins for every primitive; what is handed to the primitives is compared with RFC 4880 / RFC 6637 layouts (CrossHair+z3)',
    'text': 'With the cipher, SHA-1, S2K, the public-key operation and the KDF replaced by recording stand-ins, the real code is shown to hand the public-key operation  cipher id || key || checksum  (9 ciphers, symbolic key octets), '
            'to build the passphrase session-key packet and the integrity-protected data exactly as RFC 4880 5.3 / 5.13 say (fresh salt / prefix from the entropy feed, symbolic data), to derive the RFC 6637 section 8 parameter block for ECDH, '
            'and to return the same literal body, file name, format and signatures after encrypt -> export -> import -> decrypt for passphrase and public-key recipients, also when one message has both kinds of recipient (O3.6). Path trees exhausted within bounds.',
    'note': 'The claim is about framing only: the real ciphers, CFB, RSA, ECDH, AES-KW, PKCS#5 padding and every compressor are outside (C code). Bodies of 0..3 symbolic octets. One genuine defect repaired (private-key decryption of a message that also has a passphrase recipient).'}
CLAIMS['C06'] = {
    'technique': 'bounded symbolic execution of protect / unlock / key-blob encryption with an ideal cipher, collision-free hash stand-in and symbolic entropy (CrossHair+z3)',
    'text': 'O6.1: what protect() hands the cipher is secret-MPIs || SHA-1(secret-MPIs) under the derived key with fresh IV and salt, S2K iterated+salted usage 254, all secret fields zero afterwards (RSA/DSA/EdDSA, symbolic secret octets and passphrase). '
            'O6.3: the unlock check accepts exactly the RFC predicate on an arbitrary symbolic decrypted string (usage 254 and 255), else raises and leaves the fields zero. O6.2: after protect, after a normal and after a raising unlock scope, and after a wrong passphrase, primary and subkey are locked and hold zeros. '
            'O6.2b: an unlock that fails part-way leaves everything locked. O6.4: the export depends on the secrets only through the cipher. O6.5: foreign S2K forms incl. GNU dummy load as locked and refuse private use. '
            'O6.6: the key-encryption key arithmetic is RFC 4880 3.7.1 for every passphrase length and coded count (Engine A on the real derive_key source, shared with C12).',
    'note': 'Trusted: stand-ins of harness/encfix.py. Not covered: real S2K+CFB interoperability (C12 covers derivation), memory residue, private operations after unlock (cryptography library).'}
CLAIMS['C07'] = {
    'technique': 'bounded symbolic execution: the derived public packet as a function of public fields only (symbolic secret octets), public-twin structure, refusal matrix (CrossHair+z3)',
    'text': 'O7.1: for RSA, DSA, ElGamal, EdDSA, ECDSA and ECDH secret key packets, unprotected (symbolic secret integers) or protected (symbolic salt/IV/encrypted octets), the packet produced by pubkey() equals the public packet built from the public material alone. '
            'O7.2: the public twin of three key shapes consists of tags {6,14,13,17,2} only, keeps fingerprint, identities and subkeys, contains no secret integer as a substring and re-imports as public. O7.3: every private operation refuses on public objects, encryption refuses on private keys. O7.4: twins reflect later additions.',
    'note': 'Key-level obligations use concrete fixture keys with a symbolic choice of shape/operation. Armored form (base64, C code) and object-graph scanning are outside.'}
CLAIMS['C13'] = {
    'technique': 'entropy as a symbolic variable: os.urandom replaced by a symbolic feed, every salt / IV / session key / prefix compared with the feed element it must be (CrossHair+z3)',
    'text': 'With os.urandom (the only entropy entry point PGPy uses) returning elements of a feed whose contents the solver chooses, passphrase encryption is shown to use three distinct draws of key size, 8 and block size for session key, salt and prefix, a second encryption three new ones; '
            'public-key encryption two; key protection an own IV and salt per key and subkey; and with a cipher whose output ignores its input the exported message does not depend on the session key. A constant, cached, reused or message-derived value cannot equal an arbitrary fresh feed element.',
    'note': 'NOT decided: that each ECDH encryption makes a new ephemeral key (generation is a C call inside the stubbed public-key operation); quality of the OS source; randomness during key generation.'}
CLAIMS['C14'] = {
    'technique': 'bounded symbolic exploration of packet-sequence shapes through the real key parser / exporter against a reference grouping function (CrossHair+z3 forking on symbolic menu indices)',
    'text': 'A transferable key is assembled from a 19-element packet menu (user ids incl. a non-UTF-8 one, attribute, subkeys, trust packet, nine signatures with exportable absent/1/0, equal/differing times, a sensitive designated revoker and one by an unknown algorithm, a second primary) by symbolic indices; after the real from_blob every signature must sit on the component that precedes it, '
            'trust packets be ignored and the second primary be split off; the export must omit exactly the non-exportable signatures, re-import to the same structure, be stable, and equal the export of a copy. Sequences of 1..3 (quick) / 4 (thorough) packets, exhaustively per partition.',
    'note': 'Packet contents are concrete: this is solver-driven exploration of shapes, and the evidence says so. "Still verifying" is C01/C15. Three genuine defects repaired (stable ordering of equal-time signatures; copies of non-UTF-8 user ids; signatures by an unknown algorithm lost their integers on import).'}
CLAIMS['C15'] = {
    'technique': 'bounded symbolic exploration of key-management histories on the real PGPKey API with a remembering signature oracle (CrossHair+z3 forking on symbolic operation indices)',
    'text': 'A fresh key is taken through 1..3 (quick) / up to 5 (thorough) steps chosen by symbolic indices from 11 operations (add identity / image / signing subkey / encryption subkey, re-certify with new preferences, third-party certify, revoke identity / subkey / key, remove identity or add revoker, export+import, take and keep the public twin), optionally in the same second; '
            'afterwards, on the private key, its public twin, a re-imported export and a copy, every self-signature, binding and revocation must verify under the public half (the octets hashed at verification equal those hashed at signing), and identities, subkeys, revocations, effective flags and primary mark must be those of a reference model.',
    'note': 'Contents concrete, histories short; protect/unlock are in C06. Exploration of operation sequences, not of data.'}
CLAIMS['C16'] = {
    'technique': 'bounded symbolic execution of the real KeyAction / key-flag selection with capability sets chosen by symbolic indices (CrossHair+z3)',
    'text': 'On a fixture key with two subkeys the KeyFlags of the identity and of the bindings are overwritten per path from 7 capability sets each (plus an optional later re-binding), and sign / certify / encrypt must use the first component whose most recent self-signature grants the capability, name exactly it (issuer, issuer fingerprint, recipient id), and refuse otherwise; '
            'with enforcement off the operation proceeds; the precondition matrix (public / unprotected / locked / unlocked / no identity x 7 operations) and subkey-addressed decryption are decided too.',
    'note': 'One identity per key, two subkeys; algorithm capability is not studied. One genuine defect repaired (subkey flags taken from the oldest binding).'}
CLAIMS['C18'] = {
    'technique': 'bounded symbolic execution of the fingerprint computation with SHA-1 replaced by a recorder: the octets fed to the hash are compared with 99 || len2 || exported public body (CrossHair+z3)',
    'text': 'For RSA (leading-zero integers included), DSA, ElGamal, EdDSA, ECDSA and ECDH keys, given as foreign public packets and as secret packets, the octets the fingerprint computation feeds to SHA-1 are shown equal to 0x99, the two-octet length and the exported public-key packet body, '
            'identical for the secret packet (unprotected, or protected with every S2K form: O18.3), the public packet derived from it, copies and re-imported exports; Fingerprint key id / short id / space and case normalisation are decided on spaced forms with symbolic space positions; '
            'O18.4: with the digest value chosen by symbolic index from 7 adversarial 160-bit values, the issuer, issuer-fingerprint, one-pass and recipient key-id fields PGPy writes are that value / its low 64 bits octet for octet (recipient: the encryption subkey).',
    'note': 'The creation-time clause is decided only on 4 zones x 6 boundary instants chosen by symbolic index (O18.1-tz; the time codec is C code, symbolic datetimes do not terminate); SHA-1 itself is not studied. One genuine defect repaired (zone-aware creation times written as wall-clock fields).'}

# ---- obligations added after the third round of seeded changes (DESIGN.md 9.4); menus run natively per path (native(), DESIGN.md 9.2)
EXTRA = {
 'C01': 'O1.6: real RSA-2048: the genuine integer verifies for the signed document only, 7 integer mutants never. O1.1-attr2: certifications over attributes with two subpackets cover both. O1.5: either algorithm octet of an accepted signature replaced by any of the 256 values never verifies truthy. O1.1-uidpkt: certifications over user-id PACKETS given by raw octets (Latin-1 vs UTF-8, NFC vs NFD, invalid UTF-8) verify only for the identical octets.',
 'C02': 'O2.3 (left-16) now ranges over five hash algorithms and checks which algorithm the digest was asked for. O2.5 also covers a copy of the re-imported signature; O2.6: a certification still hashes to the signed octets after the user id packet travelled as octets, for names in any Unicode normalisation form.',
 'C03': 'O3.7: tag-9 (no MDC) data behind a public-key or passphrase session key from another producer decrypts to exactly its literal content. The public-key stand-in only decrypts an intact ciphertext object.',
 'C04': 'O4.1c: streams of 8192k+20 octets (and neighbours) with one changed octet, real SHA-1. O4.1b: the verdict on a packet object does not depend on earlier attempts on it (decrypt twice). O4.7: strings with lone surrogates never act as another passphrase.',
 'C05': 'O5.4: using a key (sign / certify / encrypt / capability query) leaves every received region, the public twin and the export unchanged, for all 256 key-flags octets.',
 'C06': 'O6.6c: one hash context per key part with its own zero preload (= O12.3a on the real derive_key). O6.6b: text passphrases enter the real key derivation as their UTF-8 octets. O6.7: a foreign protected key exports its imported octets again after unlock and re-lock (usage 254 / 255).',
 'C07': 'The fixture key carries own and third-party direct-key signatures. O7.1-tz: the derived public packet carries the same creation instant for zone-aware non-UTC and naive creation times. O7.2 also compares the exportable signature packets of private and public export octet for octet, incl. a key as another producer encoded it.',
 'C09': 'O9.2c: partial bodies whose final part has a one-, two- or five-octet length. O9.8: key creation time, literal modification time and the creation-time subpacket serialise the Unix time for 10 boundary instants x 6 zones and parse back. O9.9: a subpacket of a parsed signature grown or shrunk across a length-width boundary leaves every length field exact after one update_hlen().',
 'C10': 'O10.5 now includes armor header sets (also values containing ": " and CRLF input); O10.6: foreign line widths {64,76,75,60,33,2,1} and CRC lines {correct, =AAAA, one bit off}. Two genuine defects repaired (header parsing).',
 'C11': 'O11.1-long: 0..12 lines. O11.3 runs natively (texts of 0..4 / 5 characters). O11.3k: witness of the open finding KF-C11-non-ascii-readback.',
 'C13': 'Draws are matched to their uses in any order (drawn_fresh). O13.1b: every passphrase of a multi-passphrase message gets its own new salt. O13.3b: a key loaded with Simple S2K is re-protected with a salted specifier and new draws.',
 'C14': 'O14.3: armored export / import with the CRC-24 forced to values with leading zero octets. Menu of 19 packets (adds a certification with a non-minimal hashed subpacket length and a non-exportable revocation). O14.2: signature by an unknown algorithm between any two menu packets.',
 'C15': 'Histories of 1..3 (quick) / up to 5 (thorough) steps; two primary-marked identities; the identity order is the same on every view.',
 'C16': 'O16.7: private operations refuse after an unlock scope was left through an exception. O16.1 covers the full 7^3 / 7^4 product and checks that the capabilities reported after the operation are unchanged. O16.6: a later certification by another key carrying key flags - also with its unhashed issuer id overwritten - never decides capabilities.',
 'C17': 'O17.5: the real expiry test (no stand-ins, real Ed25519) for key ages around the process-zone offset. O17.6: real RSA: over-long, bit-flipped and incremented signature integers are bad.',
 'C18': 'O18.1-opaque: keys of an algorithm without a class. O18.4 includes a signing subkey a certify-only primary delegates to (both issuer fields name the subkey). O18.1-tz includes naive creation times under a non-UTC process zone. Two genuine defects repaired.',
 'C19': 'O19.3: real keys loaded from octets and armor, both halves in separate blobs or in one blob, a second key sharing the identity; fingerprints(keyhalf) and every alias after every step of 1..3 (quick) / 4 (thorough) step histories.',
 'C20': 'O20.2 covers the format markers b, t, u, l, 1, m.',
 'C08': 'O8.partial2: final part of a partial body with a two- or five-octet length. Canonical EC key bodies must come back octet for octet (leading zero octets of a coordinate included).',
}
for _k, _v in EXTRA.items():
    CLAIMS[_k]['text'] = CLAIMS[_k]['text'] + ' ' + _v
NOT_APPLICABLE = {p: NB for p in ['C%02d' % i for i in range(1, 21)] if p not in CLAIMS}
