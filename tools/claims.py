"""What MANIFEST.json claims, per property."""
HOOK_COMMITS = []
NB = 'not yet built in this session (design in DESIGN.md section 3); will be claimed once its check decides on the unchanged tree'
CLAIMS = {
    'C09': {
        'technique': 'bounded symbolic execution of the real codec functions (CrossHair+z3), full-width integer domains; SMT translation of leaf kernels',
        'enginea': True,
        'text': 'Every new-format length in [0,2^32), every 5-octet non-partial length field, every old-format (tag, length-type, length) triple, '
                'every subpacket header (type x critical x length), every MPI below 2^32 (2^40 thorough), every foreign MPI of up to 40 bits and all 256 S2K '
                'coded counts are decided symbolically on the real Header/MPI/String2Key code: the path tree is exhausted and every path is unsat, so '
                'within those domains there is no value on which encode/decode disagree with RFC 4880. This is bounded model checking, not proof.',
        'note': 'Trusted: CrossHair models of int/bytes, shims S1-S10, the RFC formulas written in harness/c09.py. Not decided: 4-octet time <-> datetime (C calls); '
                'partial lengths beyond 2 chunks of <= 8 octets. Two genuine defects are recorded in known_findings.json (MPI(0), old-format width growth).'},
}
CLAIMS['C17'] = {
    'technique': 'SMT translation of the disqualification predicate from source (all 2^11 x 2^11 issue/advisory pairs, 3 solvers) + bounded symbolic execution of PGPKey.verify and SignatureVerification',
    'enginea': True,
    'text': 'O17.1 translates causes_signature_verify_to_fail from its current source to SMT and proves, for every issue value and every advisory set, '
            'that a disqualifying flag implies failure and failure is monotone under added advisory flags (unsat on z3 5.1, z3 4.8.12, cvc5). O17.2 runs the real '
            'PGPKey.verify with the key-issue checks and the signature primitive replaced by arbitrary values and decides the verdict for every single issue x advisory x '
            'crypto answer. O17.3 decides list coherence for 1..3 examined signatures over a 10-value issue basis. Bounded model checking.',
    'note': 'Trusted: stubs of check_management/check_primitives/EdDSAPub.verify (arbitrary values), CrossHair, the translator (validated on all 2048 values against the real property each run). '
            'Revoked is treated as advisory, as the library does. One genuine defect was repaired (fix: 63ecc59).'}
CLAIMS['C05'] = {
    'technique': 'bounded symbolic execution of the real signature-packet parser and hashdata (CrossHair+z3) over symbolic subpacket octets',
    'text': 'A received v4 signature packet is assembled from symbolic octets (type id, critical bit, length form 1/2/5, body octets, header octets), parsed by the real '
            'Packet() dispatch and every registered subpacket handler, and the octets PGPSignature.hashdata feeds to the hash are compared with the received region; '
            'one obligation per handler family, each with exhausted path tree (all paths unsat) within the per-family bounds listed in the evidence; plus order of several '
            'subpackets, the four header octets, and a symbolic single-bit flip of the region. Bounded model checking.',
    'note': 'Trusted: CrossHair, shims, the packet assembler in harness/c05.py. Bounds: bodies of a few symbolic octets (time octets from {00,7F,80,FF}; one fingerprint octet from 16 values), '
            'well-formed fixed-size subpackets only, v4 only. Three genuine defects were repaired (fix: 7eafd51, e71c98b, 37a3e74).'}
CLAIMS['C12'] = {
    'technique': 'SMT translation of the count/copies/remainder arithmetic sliced from derive_key (unbounded length, 3 solvers) + bounded symbolic execution of derive_key with a recording hash',
    'enginea': True,
    'text': 'O12.1 slices the statements computing count, hcount and hleft out of the current derive_key source, translates them and the coded-count getter to SMT and proves for every '
            'passphrase length (unbounded integer) and all 256 coded counts that the stream is max(decoded count, L) octets made of whole copies plus a proper remainder, with no division by zero. '
            'O12.3a/b execute the real derive_key symbolically with hashlib replaced by a recorder and decide, for symbolic salt and passphrase octets, that context i is fed i zero octets followed by the RFC stream '
            '(simple, salted, and iterated with 10..64-octet units and counts 1024..2176) and that the key is the digests in order, truncated. Bounded model checking.',
    'note': 'Trusted: the recording hash (digest = function of length and 12 edge octets; inputs are compared directly as well), CrossHair, shim S8 (bytes*int as flat repetition), the RFC model spec_streams(). '
            'Not decided: the hash functions; content for passphrases longer than the stated bounds (arithmetic covers every length). One genuine defect repaired (fix: 73fc9f5).'}
CLAIMS['C10'] = {
    'technique': 'SMT translation of the CRC-24 loop body (inductive step over all 2^32 state/octet pairs, bit-vectors, 3 solvers) and of the wrap expression (unbounded length); bounded symbolic execution for CRC line and labels',
    'enginea': True,
    'text': 'O10.1: the per-octet loop body, the initial value and the final mask are cut out of the current crc24 source, translated to 32-bit bit-vector terms with no-overflow side obligations, '
            'and shown equal to an independently formulated RFC 4880 6.1 LFSR step for every 24-bit state and octet (unsat); with the base case this gives the CRC for payloads of every length by induction. '
            'O10.3: the slice bounds and range step of the wrap expression in __str__ are translated and shown to tile a payload of any length into lines of 1..76 characters. '
            'O10.2 (three-octet CRC line over all 2^24 values) and O10.4 (label emitted per object kind; every foreign label rejected by parse) are decided on the real code with CrossHair.',
    'note': 'NOT decided here (regular expressions on symbolic text are outside this tool, probe P14): armored text -> object round trip, CRLF / surrounding text, armor header lines, the CRC-mismatch warning; base64 is C code. '
            'The claim is therefore the checksum, the line geometry and the label discipline, not the whole envelope.'}
CLAIMS['C19'] = {
    'technique': 'bounded symbolic execution of the real PGPKeyring index code over symbolic load/unload histories and creation orders (CrossHair+z3)',
    'text': 'The real PGPKeyring (alias maps, re-sort on unload, lookup, membership, fingerprints, len) is executed on histories whose operations and key creation times are symbolic: '
            'every 3-step (quick) / 4-step (thorough) history over three keys in three sharing universes (shared name / e-mail / comment, subkeys, public+private halves), and every 5-step '
            'history over two name-sharing keys. After each history the index must report exactly the loaded fingerprints, and every fingerprint (also spaced), key id, short id, name, comment and e-mail '
            'must select a loaded key carrying it, identifiers of unloaded keys nothing. Path trees are exhausted per partition; bounded model checking.',
    'note': 'Trusted: the duck-typed PGPKey stand-ins (fingerprint/created/is_public/userids/subkeys as attributes), CrossHair. Outside: loading from blobs/files (key parsing), selection by message/signature, longer histories. '
            'One genuine defect repaired (fix: 0ed67fc).'}
CLAIMS['C02'] = {
    'technique': 'differential bounded symbolic execution: real hashdata/_sign/option code vs an RFC 4880 5.2.4 / 5.2.3.x reference model, symbolic subjects and option values (CrossHair+z3)',
    'text': 'The octets PGPy hashes and hands to the signing primitive are compared with a reference model written from RFC 4880 (specs/rfc4880_sig.py) for every signature type PGPy emits: '
            'documents (binary/text), stand-alone/timestamp, certifications and their revocations over user ids (arbitrary UTF-8) and user attributes, direct-key, key/subkey revocation, '
            'subkey and primary-key binding, with symbolic subject and key-body octets; and for every option of sign/certify/revoke/revoker/bind (expiry, revocable, notation, policy, '
            'key flags, preference lists, key expiry, key-server flags/URI, primary, exportable, trust, regex, reason/comment, designated revoker, issuer fingerprint on/off) the hashed area is compared with the RFC encoding. '
            'Left-16 field and signature-integer encoding are decided too. Each obligation exhausts its path tree within the stated bounds.',
    'note': 'The independent implementation is a reference model, not GnuPG (absent). Trusted: that model, the signature oracle and recording-hash stubs, CrossHair. Bounds: subjects and option strings of 0..2/3 symbolic '
            'characters or octets, time-valued options at 5 boundary values, EdDSA integers at 256 boundary combinations. One genuine defect repaired (fix: e19eea5).'}
CLAIMS['C01'] = {
    'technique': 'two-copy bounded symbolic execution of PGPKey.verify/hashdata with the signature primitive replaced by its ideal functionality (CrossHair+z3)',
    'text': 'For each subject kind (documents binary/text, messages carrying signatures, user ids, user attributes, primary keys, subkeys) a signed tuple and a presented tuple with symbolic octets, '
            'types, hash algorithm, a hashed subpacket value and signature integers are run through the real PGPKey.verify; the primitive answers yes exactly for the octets that were signed. '
            'Every path on which verify returns a truthy result is shown to have equal tuples (text: equal after canonicalisation); uid/attribute confusion, wrong verifying key and subkey delegation are separate obligations; '
            'an injectivity lemma on the reference model closes the kinds not paired directly. Reachability witnesses (must be refuted) show the accepting path is reached. Path trees exhausted within the bounds.',
    'note': 'Trusted: the ideal-signature stub (existential unforgeability as exactness), stand-in keys with symbolic packet bodies, CrossHair. Not covered: the primitives; RSA/DSA/ECDSA verify wrappers '
            '(exercised through EdDSA only); time-valued subpackets concrete; payloads of 0..3 symbolic octets.'}
CLAIMS['C04'] = {
    'technique': 'accept-predicate equivalence under an adversarial (ideal) cipher: bounded symbolic execution of the real decrypt paths with the cipher output as a symbolic octet string (CrossHair+z3)',
    'text': 'The cipher is replaced by its ideal functionality - under the right key it returns the plaintext, otherwise an arbitrary symbolic octet string - and SHA-1 by a stand-in that is collision-free on the lengths used. '
            'O4.1: IntegrityProtectedSKEDataV1.decrypt returns iff the RFC 4880 5.13 predicate holds for the decrypted octets and then returns exactly the payload, else raises PGPDecryptionError (block sizes 8 and 16, every octet symbolic). '
            'O4.2: the public-key session-key block is accepted iff cipher id known and checksum right. O4.4: PGPMessage.decrypt with a wrong passphrase raises whatever the wrong key decrypts to. '
            'O4.5: replacing any single octet of the protected string (symbolic position and value) makes decryption raise. Reachability witnesses show the accepting paths are reached. Path trees exhausted within bounds.',
    'note': 'Assumes the real ciphers behave like the ideal one and SHA-1 like a collision-free function (that is cryptography, not PGPy). Not covered: ECDH unwrap (C code), bodies beyond a few octets. '
            'Observed, not a violation of the property as stated: PGPy has no minimum-length check on the decrypted string and none on the session-key block length.'}
CLAIMS['C20'] = {
    'technique': 'bounded symbolic execution of the real message composition / export / import code against an independent packet splitter and the RFC 4880 11.3 grammar (CrossHair+z3)',
    'text': 'Messages are built through the real PGPMessage API with 0..3 fabricated signatures whose creation times (incl. ties), hash algorithms and issuers are chosen by symbolic indices and whose content octets are symbolic; '
            'the export is cut into packets by an independent splitter and checked against the grammar (n one-pass packets in reverse order of the n signatures, each naming type, hash, algorithm and issuer, only the last flagged; one literal). '
            'Metadata round trip (content, format, file name incl. _CONSOLE, time, compression id, signatures), the compression wrapper (identity compressor stand-in), old-format and partial-length foreign encodings, and the encrypted-message grammar are separate obligations. '
            'Path trees exhausted within bounds.',
    'note': 'Trusted: the splitter and grammar in harness/c20.py, fabricated signatures, identity compressor, cipher/S2K stand-ins. Not covered: zlib/bz2 content round trip (C), bodies beyond a few octets, times beyond 5 boundary values, charset transcoding. '
            'One genuine defect repaired (fix: 7a680e2, one-pass flag octets).'}
CLAIMS['C11'] = {
    'technique': 'bounded symbolic execution of the text-signature hashing and cleartext signing code against an RFC 4880 7.1 reference (CrossHair+z3)',
    'text': 'Decided: the octets hashed for a text (0x01) signature equal the RFC 4880 7.1 canonical form for every text of 0..4 octets over the full byte alphabet (LF, CRLF, lone CR, non-ASCII) outside the region of one recorded finding; '
            'signing a cleartext message produces a 0x01 signature over exactly the message text, and the Hash: header lists exactly the hash algorithms of the signatures carried (1..2 signers).',
    'note': 'NOT decided (regular expressions on symbolic text are outside this tool, probe P14): dash-escaping and its removal, and the cleartext branch of the armor regular expression - i.e. the written-and-read-back round trip of the text. '
            'The claim is therefore only the signed-octets half of the property. Open known finding KF-C11-trailing-blanks (trailing SP/HT are hashed).'}
CLAIMS['C08'] = {
    'technique': 'bounded symbolic execution of the real Packet() dispatch and every packet class codec on symbolic foreign packets, fixed-point contract checked per path (CrossHair+z3)',
    'text': 'For each packet class (user id, literal, marker, trust, MDC, encrypted data tag 9 and 18, symmetric and public-key session keys, one-pass, signature, RSA / DSA / ElGamal / ECDSA / EdDSA / ECDH public keys and subkeys, '
            'unprotected and protected secret keys with every S2K form incl. GNU dummy, user attribute, unknown tags and unknown versions) a foreign packet is assembled from symbolic octets under new- and old-format headers of every length-of-length, followed by trailing octets; '
            'if PGPy accepts it, it must consume exactly its octets, re-serialise to a packet whose header length equals its body length, accept that again as the same class, and be a fixed point. Path trees exhausted within the per-class bounds.',
    'note': 'Bounds: a few symbolic octets per field, integers below 2^32, EC point octets from boundary sets, fixed times, no compressed packets (C code), v4 only. "Same field values" is checked as same class + identical re-serialisation. '
            'Four genuine defects repaired (secret-key usage 255 aliasing, unhashed area length mismatch, stale header length after normalisation, literal file-name codec).'}
NOT_APPLICABLE = {p: NB for p in ['C%02d' % i for i in range(1, 21)] if p not in CLAIMS}
