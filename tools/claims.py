"""What MANIFEST.json claims, per property."""
HOOK_COMMITS = []
NB = 'not yet built in this session (design in DESIGN.md section 3); will be claimed once its check decides on the unchanged tree'
CLAIMS = {
    'C09': {
        'technique': 'bounded symbolic execution of the real codec functions (CrossHair+z3), full-width integer domains; SMT translation of leaf kernels',
        'enginea': True,
        'text': 'Every new-format length in [0,2^32), every 5-octet non-partial length field, every old-format (tag, length-type, length) triple, '
                'every subpacket header (type x critical x length), every MPI below 2^32 (2^40 thorough), every foreign MPI of up to 40 bits and all 256 S2K '
                'coded counts are decided symbolically on the real Header/MPI/String2Key code: the path tree is exhausted and every path is unsat, so '
                'within those domains there is no value on which encode/decode disagree with RFC 4880. This is bounded model checking, not proof.',
        'note': 'Trusted: CrossHair models of int/bytes, shims S1-S10, the RFC formulas written in harness/c09.py. Not decided: 4-octet time <-> datetime (C calls); '
                'partial lengths beyond 2 chunks of <= 8 octets. Two genuine defects are recorded in known_findings.json (MPI(0), old-format width growth).'},
}
NOT_APPLICABLE = {p: NB for p in ['C%02d' % i for i in range(1, 21)] if p not in CLAIMS}
