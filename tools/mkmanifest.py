#!/usr/bin/env python3
"""Regenerate /verif/MANIFEST.json from the table below (kept valid at all times)."""
import json, os, sys
V = os.path.dirname(os.path.dirname(os.path.abspath(__file__)))
sys.path.insert(0, V)
from tools.claims import CLAIMS, NOT_APPLICABLE, HOOK_COMMITS

checks = []
for pid, c in sorted(CLAIMS.items()):
    checks.append({
        'property_id': pid,
        'quick_cmd': './check %s --tier quick' % pid,
        'thorough_cmd': './check %s --tier thorough' % pid,
        'evidence_file': 'evidence/%s.json' % pid,
        'replay_cmd_template': './check %s --replay {path}' % pid,
        'engine': c.get('engine', 'crosshair+z3'),
        'level_claimed': {'category': 'model_checking', 'text': c['text'], 'design_ref': 'DESIGN.md section 3/%s' % pid},
        'level_note': c['note'],
        'technique': c['technique'],
    })
m = {
    'version': 1,
    'setup_cmd': './setup.sh',
    'hooks': {'guard': 'SECURITYINNOVATION_PGPY_VERIF',
              'enable': 'no source hooks are needed: checks import /repo/pgpy from the working tree in fresh subprocesses and install their stubs/shims inside those processes only',
              'baseline_off_cmd': 'cd /repo && /venv/bin/python -m pytest -ra -q -p no:cacheprovider --timeout=900 --continue-on-collection-errors',
              'source_commits': HOOK_COMMITS, 'add_only': True},
    'engines': [
        {'name': 'crosshair+z3', 'path': 'vlib/runone.py', 'serves_properties': sorted(CLAIMS),
         'kind_free_text': 'Engine B: CrossHair 0.0.110 symbolic execution of /repo bytecode, z3 5.1 deciding every branch and post-condition; one OS process per condition; counterexamples replayed natively'},
        {'name': 'ast2smt', 'path': 'vlib/astsmt.py', 'serves_properties': [p for p, c in sorted(CLAIMS.items()) if c.get('enginea')],
         'kind_free_text': 'Engine A: translation of leaf integer kernels from the current source AST to SMT (z3 Int/BV), negated property, unsat = holds on the stated domain; cross-checked on /usr/bin/z3 4.8.12 and cvc5'},
    ],
    'checks': checks,
    'not_applicable': [{'property_id': p, 'reason': r} for p, r in sorted(NOT_APPLICABLE.items())],
    'notes': 'Every result is bounded: "decided" means CrossHair exhausted the path tree (all paths unsat) or an SMT query was unsat within the bounds written in each evidence sample; inconclusive obligations are listed and never counted as success. Known genuine defects are in known_findings.json.',
}
json.dump(m, open(os.path.join(V, 'MANIFEST.json'), 'w'), indent=1)
import jsonschema  # noqa
jsonschema.validate(m, json.load(open('/root/.vp/MANIFEST.schema.json')))
ids = {json.loads(l)['id'] for l in open(os.path.join(V, 'properties.jsonl'))}
assert ids == set(CLAIMS) | set(NOT_APPLICABLE), ids ^ (set(CLAIMS) | set(NOT_APPLICABLE))
print('MANIFEST ok: %d claimed, %d not claimed' % (len(CLAIMS), len(NOT_APPLICABLE)))
