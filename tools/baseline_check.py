#!/usr/bin/env python3
"""Run /repo's test-suite (guard off) and compare with /root/.vp/BASELINE.json stable_pass. usage: baseline_check.py [repo_dir]"""
import json, subprocess, sys, tempfile, os, xml.etree.ElementTree as ET
repo = sys.argv[1] if len(sys.argv) > 1 else '/repo'
base = json.load(open('/root/.vp/BASELINE.json'))
fd, x = tempfile.mkstemp(suffix='.xml'); os.close(fd)
env = dict(os.environ); env.pop('SECURITYINNOVATION_PGPY_VERIF', None)
subprocess.run(['/venv/bin/python', '-m', 'pytest', '-ra', '-q', '-p', 'no:cacheprovider', '--timeout=900',
                '--continue-on-collection-errors', '--junitxml=' + x], cwd=repo, env=env, stdout=subprocess.DEVNULL, stderr=subprocess.DEVNULL)
passed = set()
for tc in ET.parse(x).getroot().iter('testcase'):
    if not any(c.tag in ('failure', 'error', 'skipped') for c in tc):
        passed.add('%s::%s' % (tc.get('classname'), tc.get('name')))
os.unlink(x)
want = set(base['stable_pass'])
missing = sorted(want - passed)
print('stable_pass %d, passed now %d, missing %d' % (len(want), len(passed), len(missing)))
for m in missing[:20]:
    print('  MISSING', m)
sys.exit(1 if missing else 0)
