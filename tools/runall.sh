#!/bin/sh
# run the quick tier of every claimed check sequentially and print the SUMMARY / non-decided lines
cd "$(dirname "$0")/.." || exit 2
[ -x .venv/bin/python ] || ./setup.sh
for p in "$@"; do
  ./check "$p" --tier "${TIER:-quick}" 2>&1 | grep -E "^SUMMARY|^VIOLATION|^inconclusive|^KNOWN|^WARNING|HARNESS" | cut -c1-300
done
